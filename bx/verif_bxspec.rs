// verif_bxspec.rs — table-driven in-crate specifications for the bounded units (crate::verif_bxspec).
//
// `T` is one tag type for every table; the active table is selected through a thread-local so that the
// (static) trait functions can be pointed at different specifications, including generated ones
// (paths are leaked to obtain the &'static lifetime the trait demands).  A specification here is
// *consistent* in the sense the library documents (type(id) = X  <=>  get_X_tag(id) is Some).
#![allow(dead_code)]

use ebml_iterable_specification::{EbmlSpecification, EbmlTag, Master, PathPart, TagDataType};
use std::cell::RefCell;

#[derive(Clone, Debug, PartialEq)]
pub enum T {
    M(u64, Master<T>),
    U(u64, u64),
    I(u64, i64),
    S(u64, String),
    B(u64, Vec<u8>),
    F(u64, f64),
    Raw(u64, Vec<u8>),
}

#[derive(Clone, Debug)]
pub struct Entry { pub id: u64, pub ty: TagDataType, pub path: &'static [PathPart] }

#[derive(Clone, Debug, Default)]
pub struct Table { pub entries: Vec<Entry> }

thread_local! {
    static ACTIVE: RefCell<Table> = RefCell::new(Table::default());
}

pub fn set_table(t: Table) { ACTIVE.with(|a| *a.borrow_mut() = t); }
pub fn table() -> Table { ACTIVE.with(|a| a.borrow().clone()) }

fn lookup(id: u64) -> Option<Entry> {
    ACTIVE.with(|a| a.borrow().entries.iter().find(|e| e.id == id).cloned())
}

impl EbmlSpecification<T> for T {
    fn get_tag_data_type(id: u64) -> Option<TagDataType> { lookup(id).map(|e| e.ty) }
    fn get_path_by_id(id: u64) -> &'static [PathPart] { lookup(id).map(|e| e.path).unwrap_or(&[]) }
    fn get_unsigned_int_tag(id: u64, data: u64) -> Option<T> { match lookup(id) { Some(e) if e.ty == TagDataType::UnsignedInt => Some(T::U(id, data)), _ => None } }
    fn get_signed_int_tag(id: u64, data: i64) -> Option<T> { match lookup(id) { Some(e) if e.ty == TagDataType::Integer => Some(T::I(id, data)), _ => None } }
    fn get_utf8_tag(id: u64, data: String) -> Option<T> { match lookup(id) { Some(e) if e.ty == TagDataType::Utf8 => Some(T::S(id, data)), _ => None } }
    fn get_binary_tag(id: u64, data: &[u8]) -> Option<T> { match lookup(id) { Some(e) if e.ty == TagDataType::Binary => Some(T::B(id, data.to_vec())), _ => None } }
    fn get_float_tag(id: u64, data: f64) -> Option<T> { match lookup(id) { Some(e) if e.ty == TagDataType::Float => Some(T::F(id, data)), _ => None } }
    fn get_master_tag(id: u64, data: Master<T>) -> Option<T> { match lookup(id) { Some(e) if e.ty == TagDataType::Master => Some(T::M(id, data)), _ => None } }
    fn get_raw_tag(id: u64, data: &[u8]) -> T { T::Raw(id, data.to_vec()) }
}

impl EbmlTag<T> for T {
    fn get_id(&self) -> u64 { match self { T::M(i, _) | T::U(i, _) | T::I(i, _) | T::S(i, _) | T::B(i, _) | T::F(i, _) | T::Raw(i, _) => *i } }
    fn as_unsigned_int(&self) -> Option<&u64> { if let T::U(_, v) = self { Some(v) } else { None } }
    fn as_signed_int(&self) -> Option<&i64> { if let T::I(_, v) = self { Some(v) } else { None } }
    fn as_utf8(&self) -> Option<&str> { if let T::S(_, v) = self { Some(v) } else { None } }
    fn as_binary(&self) -> Option<&[u8]> { match self { T::B(_, v) | T::Raw(_, v) => Some(v), _ => None } }
    fn as_float(&self) -> Option<&f64> { if let T::F(_, v) = self { Some(v) } else { None } }
    fn as_master(&self) -> Option<&Master<T>> { if let T::M(_, v) = self { Some(v) } else { None } }
}

pub fn leak(p: Vec<PathPart>) -> &'static [PathPart] { Box::leak(p.into_boxed_slice()) }

pub const ROOT: u64 = 0x81;
pub const UINT: u64 = 0x82;
pub const INT: u64 = 0x83;
pub const STR: u64 = 0x84;
pub const BIN: u64 = 0x85;
pub const FLT: u64 = 0x86;
pub const PARENT: u64 = 0x87;
pub const CHILD: u64 = 0x88;
pub const SUB: u64 = 0x89;
pub const LEAF: u64 = 0x8A;
pub const OTHER: u64 = 0x8B;
pub const OX: u64 = 0x8C;
pub const LONG: u64 = 0x4286;
pub const DEEP: u64 = 0x8D;
pub const WIDE3: u64 = 0x210301;
pub const WIDE4: u64 = 0x1C53BB6B;
pub const VOID: u64 = 0xEC;
pub const CRC: u64 = 0xBF;

/// The document specification used by the writer / iterator units.
///   Root(81):M   Root/UInt(82) Root/Int(83) Root/Str(84) Root/Bin(85) Root/Flt(86) Root/Long(4286):U
///   Root/Parent(87):M  Root/Parent/Child(88):U  Root/Parent/Sub(89):M  Root/Parent/Sub/Leaf(8A):U
///   Root/Wide3(210301):U  Other/Wide4(1C53BB6B):B   (3- and 4-byte ids)
///   Other(8B):M  Other/X(8C):U     Root/\(1-2\)Deep(8D):U   Void(EC), Crc32(BF) global
pub fn doc_table() -> Table {
    use PathPart::{Global, Id};
    use TagDataType::*;
    let e = |id, ty, path: Vec<PathPart>| Entry { id, ty, path: leak(path) };
    Table { entries: vec![
        e(ROOT, Master, vec![]),
        e(UINT, UnsignedInt, vec![Id(ROOT)]),
        e(INT, Integer, vec![Id(ROOT)]),
        e(STR, Utf8, vec![Id(ROOT)]),
        e(BIN, Binary, vec![Id(ROOT)]),
        e(FLT, Float, vec![Id(ROOT)]),
        e(LONG, UnsignedInt, vec![Id(ROOT)]),
        e(PARENT, Master, vec![Id(ROOT)]),
        e(CHILD, UnsignedInt, vec![Id(ROOT), Id(PARENT)]),
        e(SUB, Master, vec![Id(ROOT), Id(PARENT)]),
        e(LEAF, UnsignedInt, vec![Id(ROOT), Id(PARENT), Id(SUB)]),
        e(OTHER, Master, vec![]),
        e(OX, UnsignedInt, vec![Id(OTHER)]),
        e(WIDE3, UnsignedInt, vec![Id(ROOT)]),
        e(WIDE4, Binary, vec![Id(OTHER)]),
        e(DEEP, UnsignedInt, vec![Id(ROOT), Global((Some(1), Some(2)))]),
        e(VOID, Binary, vec![Global((None, None))]),
        e(CRC, Binary, vec![Global((Some(1), None))]),
    ] }
}

pub fn master_ids(t: &Table) -> Vec<u64> { t.entries.iter().filter(|e| e.ty == TagDataType::Master).map(|e| e.id).collect() }
