// verif_bxref.rs — reference vocabulary for the bounded units (crate::verif_bxref), DESIGN.md §3.
// Written from RFC 8794 and the property statements; shares no code with the functions under contract.
#![allow(dead_code)]

use ebml_iterable_specification::{PathPart, TagDataType};
use crate::verif_bxspec::{Table, T};
use ebml_iterable_specification::Master;

// ---- tiny JSON helpers (no serde in the crate) -------------------------------------------------
pub fn hex(b: &[u8]) -> String { b.iter().map(|x| format!("{:02x}", x)).collect::<Vec<_>>().join("") }
pub fn unhex(s: &str) -> Vec<u8> { (0..s.len() / 2).map(|i| u8::from_str_radix(&s[2 * i..2 * i + 2], 16).unwrap()).collect() }
pub fn jstr(s: &str) -> String {
    let mut o = String::from("\"");
    for c in s.chars() {
        match c { '"' => o.push_str("\\\""), '\\' => o.push_str("\\\\"), '\n' => o.push_str("\\n"), c if (c as u32) < 0x20 => o.push_str(&format!("\\u{:04x}", c as u32)), c => o.push(c) }
    }
    o.push('"');
    o
}

// ---- path pattern semantics (C11) ------------------------------------------------------------------
/// `chain` (ids of the open masters, outermost first) matches the declared `path` read as a pattern:
/// Id(a) consumes exactly one master with id a, Global(min,max) consumes between min and max arbitrary
/// masters (absent bound: 0 / unbounded); the whole chain must be consumed.
pub fn path_matches(path: &[PathPart], chain: &[u64]) -> bool {
    match path.first() {
        None => chain.is_empty(),
        Some(PathPart::Id(a)) => !chain.is_empty() && chain[0] == *a && path_matches(&path[1..], &chain[1..]),
        Some(PathPart::Global((min, max))) => {
            let min = min.unwrap_or(0) as usize;
            let max = max.map(|m| m as usize).unwrap_or(usize::MAX);
            let mut k = min;
            while k <= max && k <= chain.len() {
                if path_matches(&path[1..], &chain[k..]) { return true; }
                k += 1;
            }
            false
        }
    }
}

pub fn entry(t: &Table, id: u64) -> Option<(TagDataType, &'static [PathPart])> { t.entries.iter().find(|e| e.id == id).map(|e| (e.ty, e.path)) }

/// C07: `next` ends an open unknown-size master `open`: next is a sibling (same declared path), a new
/// instance of one of open's ancestors (occurs as an Id in open's path), or a root element of the spec.
pub fn ended_by(t: &Table, open: u64, next: u64) -> bool {
    let (po, pn) = match (entry(t, open), entry(t, next)) { (Some(a), Some(b)) => (a.1, b.1), _ => return false };
    pn.is_empty() || po == pn || po.iter().any(|p| matches!(p, PathPart::Id(a) if *a == next))
}
pub fn is_global(t: &Table, id: u64) -> bool { entry(t, id).map(|e| !e.1.is_empty() && e.1.iter().all(|p| matches!(p, PathPart::Global(_)))).unwrap_or(false) }

// ---- headers (C03/C12) -----------------------------------------------------------------------------
#[derive(Clone, Debug, PartialEq)]
pub enum Hdr {
    /// complete header: id (with marker), id length, declared size (None = unknown), size-field length
    Ok { id: u64, id_len: usize, size: Option<u64>, size_len: usize },
    /// the stream ends inside the header; `id` is Some exactly when the id bytes are complete
    Incomplete { id: Option<(u64, usize)> },
    /// first id byte is 0x00 (no valid length marker) / first size byte is 0x00
    BadId,
    BadSize { id: u64, id_len: usize },
}

fn lead(b: u8) -> usize { b.leading_zeros() as usize + 1 }

/// Header of the element starting at `off` in `s`, in terms of the stream only.
pub fn hdr_at(s: &[u8], off: usize) -> Hdr {
    if off >= s.len() { return Hdr::Incomplete { id: None }; }
    let b0 = s[off];
    // a first byte 0x00 carries no length marker; the iterator's convention is to treat it as the one-byte id 0
    // (never part of a specification: an invalid id in strict mode, a raw tag with id 0 when unknown ids are tolerated)
    let il = if b0 == 0 { 1 } else { lead(b0) };
    if off + il > s.len() { return Hdr::Incomplete { id: None }; }
    let mut id = 0u64;
    for k in 0..il { id = (id << 8) | s[off + k] as u64; }
    let so = off + il;
    if so >= s.len() { return Hdr::Incomplete { id: Some((id, il)) }; }
    let c0 = s[so];
    if c0 == 0 { return Hdr::BadSize { id, id_len: il }; }
    let sl = lead(c0);
    if so + sl > s.len() { return Hdr::Incomplete { id: Some((id, il)) }; }
    let mut raw = 0u128;
    for k in 0..sl { raw = (raw << 8) | s[so + k] as u128; }
    let data = raw - (1u128 << (7 * sl));
    let size = if data == (1u128 << (7 * sl)) - 1 { None } else { Some(data as u64) };
    Hdr::Ok { id, id_len: il, size, size_len: sl }
}

// ---- payload decoding (C03/C16) ----------------------------------------------------------------
pub fn dec_u(p: &[u8]) -> u64 { p.iter().fold(0u64, |a, b| (a << 8) | *b as u64) }
pub fn dec_i(p: &[u8]) -> i64 {
    if p.is_empty() { return 0; }
    let mut v: i128 = if p[0] & 0x80 != 0 { -1 } else { 0 };
    for b in p { v = (v << 8) | *b as i128; }
    v as i64
}
pub fn dec_f(p: &[u8]) -> Option<f64> {
    match p.len() {
        4 => Some(f32::from_bits(dec_u(p) as u32) as f64),
        8 => Some(f64::from_bits(dec_u(p))),
        _ => None,
    }
}

/// payload equality with floats compared bit for bit
pub fn tag_eq(a: &T, b: &T) -> bool {
    match (a, b) {
        (T::F(i, x), T::F(j, y)) => i == j && x.to_bits() == y.to_bits(),
        (T::M(i, Master::Full(x)), T::M(j, Master::Full(y))) => i == j && x.len() == y.len() && x.iter().zip(y.iter()).all(|(p, q)| tag_eq(p, q)),
        _ => a == b,
    }
}

/// Start, children (recursively), End
pub fn flatten(t: &T, out: &mut Vec<T>) {
    match t {
        T::M(id, Master::Full(ch)) => {
            out.push(T::M(*id, Master::Start));
            for c in ch { flatten(c, out); }
            out.push(T::M(*id, Master::End));
        }
        other => out.push(other.clone()),
    }
}

pub fn show(t: &T) -> String {
    match t {
        T::M(i, Master::Start) => format!("S{:x}", i),
        T::M(i, Master::End) => format!("E{:x}", i),
        T::M(i, Master::Full(c)) => format!("F{:x}[{}]", i, c.iter().map(show).collect::<Vec<_>>().join(",")),
        T::U(i, v) => format!("U{:x}={}", i, v),
        T::I(i, v) => format!("I{:x}={}", i, v),
        T::S(i, v) => format!("S{:x}={:?}", i, v),
        T::B(i, v) => format!("B{:x}={}", i, hex(v)),
        T::F(i, v) => format!("F{:x}={:016x}", i, v.to_bits()),
        T::Raw(i, v) => format!("R{:x}={}", i, hex(v)),
    }
}

// ---- failure collection ----------------------------------------------------------------------
#[derive(Default)]
pub struct Report {
    pub unit: String,
    pub cases: u64,
    pub nontrivial: u64,
    pub clause_checks: std::collections::BTreeMap<&'static str, u64>,
    pub failures: Vec<(&'static str, String)>,
    pub fail_counts: std::collections::BTreeMap<&'static str, u64>,
    pub samples: Vec<String>,
    pub notes: Vec<String>,
}
impl Report {
    pub fn new(unit: &str) -> Self { Report { unit: unit.to_string(), ..Default::default() } }
    /// record one evaluation of contract clause `clause`; `input` is only rendered on failure
    pub fn clause(&mut self, clause: &'static str, ok: bool, input: impl FnOnce() -> String) {
        *self.clause_checks.entry(clause).or_insert(0) += 1;
        if !ok {
            let c = self.fail_counts.entry(clause).or_insert(0);
            *c += 1;
            if *c <= 400 { self.failures.push((clause, input())); }
        }
    }
    pub fn declare(&mut self, clause: &'static str) { self.clause_checks.entry(clause).or_insert(0); }
    /// merge the results of a worker (parallel enumeration of disjoint parts of the input space)
    pub fn merge(&mut self, o: Report) {
        self.cases += o.cases;
        self.nontrivial += o.nontrivial;
        for (k, v) in o.clause_checks { *self.clause_checks.entry(k).or_insert(0) += v; }
        for (k, v) in o.fail_counts { *self.fail_counts.entry(k).or_insert(0) += v; }
        for f in o.failures { if self.failures.iter().filter(|x| x.0 == f.0).count() < 400 { self.failures.push(f); } }
        for s in o.samples { if self.samples.len() < 8 { self.samples.push(s); } }
    }
    pub fn to_json(&self) -> String {
        let mut s = String::new();
        s.push_str(&format!("{{\"unit\":{},\"cases\":{},\"nontrivial\":{},", jstr(&self.unit), self.cases, self.nontrivial));
        s.push_str("\"clauses\":{");
        s.push_str(&self.clause_checks.iter().map(|(k, v)| format!("{}:{{\"checked\":{},\"failed\":{}}}", jstr(k), v, self.fail_counts.get(k).copied().unwrap_or(0))).collect::<Vec<_>>().join(","));
        s.push_str("},\"failures\":[");
        s.push_str(&self.failures.iter().map(|(c, i)| format!("{{\"clause\":{},\"input\":{}}}", jstr(c), jstr(i))).collect::<Vec<_>>().join(","));
        s.push_str("],\"samples\":[");
        s.push_str(&self.samples.iter().take(8).map(|x| jstr(x)).collect::<Vec<_>>().join(","));
        s.push_str("],\"notes\":[");
        s.push_str(&self.notes.iter().map(|x| jstr(x)).collect::<Vec<_>>().join(","));
        s.push_str("]}");
        s
    }
}
