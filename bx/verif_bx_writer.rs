// verif_bx_writer.rs — bounded stand-in (B-X) for the writer's state machine; child module of
// src/tag_writer.rs (reaches dest / open_tags / working_buffer).
//
// Every public writer call is wrapped in its contract: pre-state snapshot, call, post-state compared
// with the state the specification prescribes (DESIGN.md §3 "writer abstract state").  Each call is
// checked from whatever well-formed state the enumerated history reached, so the contracts are
// per-call, the histories are only the supply of pre-states.  BOUNDED: call alphabet below, sequences
// of length <= N.
#![allow(dead_code, deprecated)]

use super::*;
use crate::verif_bxref::{self as rf, Report};
use crate::verif_bxspec::{self as bs, T};
use ebml_iterable_specification::PathPart;

#[derive(Clone, Default)]
pub struct ScriptDest { pub data: Vec<u8>, pub chunk: usize, pub writes: usize }
impl Write for ScriptDest {
    fn write(&mut self, b: &[u8]) -> std::io::Result<usize> {
        let n = if self.chunk == 0 { b.len() } else { b.len().min(self.chunk) };
        self.data.extend_from_slice(&b[..n]);
        self.writes += 1;
        Ok(n)
    }
    fn flush(&mut self) -> std::io::Result<()> { Ok(()) }
}

#[derive(Clone, Debug, PartialEq)]
pub enum Opt { Default, Width(usize), Unknown }
#[derive(Clone, Debug)]
pub enum Call { W(T, Opt), WDep(T), Raw(u64, Vec<u8>), Flush }

fn show_call(c: &Call) -> String {
    match c {
        Call::W(t, Opt::Default) => rf::show(t),
        Call::W(t, Opt::Width(w)) => format!("{}/w{}", rf::show(t), w),
        Call::W(t, Opt::Unknown) => format!("{}/unk", rf::show(t)),
        Call::WDep(t) => format!("{}/unkdep", rf::show(t)),
        Call::Raw(i, d) => format!("raw{:x}={}", i, rf::hex(d)),
        Call::Flush => "flush".to_string(),
    }
}

#[derive(Clone, PartialEq, Debug)]
pub struct Snap { dest: Vec<u8>, wb: Vec<u8>, open: Vec<(u64, EBMLSize, usize)> }
fn snap(w: &TagWriter<ScriptDest>) -> Snap { Snap { dest: w.dest.data.clone(), wb: w.working_buffer.clone(), open: w.open_tags.clone() } }
/// An independent copy of a writer in its current state (the twin of the C09 clauses).  Bitwise copy, then the three
/// heap-owning fields known today are replaced by real clones (without dropping the aliased originals): a scalar field
/// added to TagWriter later is copied along instead of breaking a struct literal here.
fn dup(w: &TagWriter<ScriptDest>) -> TagWriter<ScriptDest> {
    unsafe {
        let mut c: TagWriter<ScriptDest> = std::ptr::read(w);
        std::ptr::write(&mut c.dest, ScriptDest { data: w.dest.data.clone(), chunk: w.dest.chunk, writes: 0 });
        std::ptr::write(&mut c.open_tags, w.open_tags.clone());
        std::ptr::write(&mut c.working_buffer, w.working_buffer.clone());
        c
    }
}

/// representation invariant: every Known(start) <= |wb|, starts non-decreasing bottom to top
fn wf(s: &Snap) -> bool {
    let mut last = 0usize;
    for (_, sz, w) in &s.open {
        if let Known(st) = sz {
            if *st > s.wb.len() || *st < last { return false; }
            last = *st;
        }
        if *w > 8 { return false; }
    }
    true
}
fn any_known(open: &[(u64, EBMLSize, usize)]) -> bool { open.iter().any(|t| matches!(t.1, Known(_))) }

fn id_bytes(id: u64) -> Vec<u8> { id.to_be_bytes().iter().copied().skip_while(|b| *b == 0).collect() }
/// size field of n in width w (0 = shortest non-reserved); None if not representable
fn size_field(n: u64, w: usize) -> Option<Vec<u8>> {
    let fits = |w: usize| (n as u128) < (1u128 << (7 * w)) - 1;
    let w = if w == 0 { (1..=8).find(|w| fits(*w))? } else { w };
    if !fits(w) { return None; }
    let v = (n as u128) + (1u128 << (7 * w));
    Some((0..w).map(|k| (v >> (8 * (w - 1 - k))) as u8).collect())
}
fn payload(t: &T) -> Option<Vec<u8>> {
    Some(match t {
        T::U(_, v) => { let b = v.to_be_bytes(); let n = if *v < 1 << 8 { 1 } else if *v < 1 << 16 { 2 } else if *v < 1 << 32 { 4 } else { 8 }; b[8 - n..].to_vec() }
        T::I(_, v) => { let b = v.to_be_bytes(); let n = if *v >= -128 && *v < 128 { 1 } else if *v >= -32768 && *v < 32768 { 2 } else if *v >= -(1i64 << 31) && *v < (1i64 << 31) { 4 } else { 8 }; b[8 - n..].to_vec() }
        T::F(_, v) => v.to_bits().to_be_bytes().to_vec(),
        T::S(_, v) => v.as_bytes().to_vec(),
        T::B(_, v) | T::Raw(_, v) => v.clone(),
        T::M(..) => return None,
    })
}

#[derive(Debug, PartialEq, Clone)]
pub enum Exp { Ok(Snap), Rejected(&'static str) }

fn flush_rule(mut s: Snap) -> Snap {
    if !any_known(&s.open) { s.dest.extend_from_slice(&s.wb); s.wb.clear(); }
    s
}

/// The state the specification prescribes after `call` from `pre` (Full is defined by its expansion).
fn expected(table: &bs::Table, pre: &Snap, call: &Call) -> Exp {
    let chain: Vec<u64> = pre.open.iter().map(|t| t.0).collect();
    match call {
        Call::Flush => {
            let mut s = pre.clone();
            while let Some(top) = s.open.last().copied() {
                match expected(table, &s, &Call::W(T::M(top.0, Master::End), Opt::Default)) { Exp::Ok(n) => s = n, r => return r }
            }
            s.dest.extend_from_slice(&s.wb);
            s.wb.clear();
            Exp::Ok(s)
        }
        Call::Raw(id, data) => {
            let mut s = pre.clone();
            s.wb.extend(id_bytes(*id));
            match size_field(data.len() as u64, 0) { Some(f) => s.wb.extend(f), None => return Exp::Rejected("size") }
            s.wb.extend_from_slice(data);
            Exp::Ok(flush_rule(s))
        }
        Call::WDep(t) => expected(table, pre, &Call::W(t.clone(), Opt::Unknown)),
        Call::W(t, opt) => {
            let id = t.get_id();
            let ty = rf::entry(table, id).map(|e| e.0);
            if *opt == Opt::Unknown {
                if ty != Some(TagDataType::Master) { return Exp::Rejected("unknown size on a non-master"); }
                // C11: an unknown-size Start is a tag like any other: it must be allowed under the open chain
                if !rf::path_matches(rf::entry(table, id).unwrap().1, &chain) { return Exp::Rejected("tag not allowed here"); }
                let mut s = pre.clone();
                s.wb.extend(id_bytes(id));
                s.wb.extend_from_slice(&[0x01, 0xFF, 0xFF, 0xFF, 0xFF, 0xFF, 0xFF, 0xFF]);
                s.open.push((id, Unknown, 0));
                return Exp::Ok(s);
            }
            let w = match opt { Opt::Width(w) => *w, _ => 0 };
            let is_end = matches!(t, T::M(_, Master::End));
            if let Some(_) = ty {
                if !is_end && !rf::path_matches(rf::entry(table, id).unwrap().1, &chain) { return Exp::Rejected("tag not allowed here"); }
            }
            match t {
                T::M(_, Master::Start) => {
                    let mut s = pre.clone();
                    s.open.push((id, Known(s.wb.len()), w));
                    Exp::Ok(flush_rule(s))
                }
                T::M(_, Master::End) => {
                    let mut s = pre.clone();
                    match s.open.last().copied() {
                        Some((oid, sz, ow)) if oid == id => {
                            if let Known(start) = sz {
                                let n = (s.wb.len() - start) as u64;
                                let f = match size_field(n, ow) { Some(f) => f, None => return Exp::Rejected("size not representable in the requested width") };
                                let mut hdr = id_bytes(id);
                                hdr.extend(f);
                                s.wb.splice(start..start, hdr);
                            }
                            s.open.pop();
                            Exp::Ok(flush_rule(s))
                        }
                        _ => Exp::Rejected("closing a master that is not the innermost open one"),
                    }
                }
                T::M(_, Master::Full(children)) => {
                    let mut s = match expected(table, pre, &Call::W(T::M(id, Master::Start), opt.clone())) { Exp::Ok(s) => s, r => return r };
                    for c in children {
                        match expected(table, &s, &Call::W(c.clone(), Opt::Default)) { Exp::Ok(n) => s = n, Exp::Rejected(_) => return Exp::Rejected("Full master containing an invalid child") }
                    }
                    match expected(table, &s, &Call::W(T::M(id, Master::End), Opt::Default)) { Exp::Ok(n) => Exp::Ok(n), Exp::Rejected(_) => Exp::Rejected("size not representable in the requested width") }
                }
                leaf => {
                    if ty.is_none() && !crate::verif_spec::id_ok(id) { return Exp::Rejected("malformed raw id"); }
                    let p = payload(leaf).unwrap();
                    let f = match size_field(p.len() as u64, w) { Some(f) => f, None => return Exp::Rejected("size not representable in the requested width") };
                    let mut s = pre.clone();
                    s.wb.extend(id_bytes(id));
                    s.wb.extend(f);
                    s.wb.extend(p);
                    Exp::Ok(flush_rule(s))
                }
            }
        }
    }
}

fn apply(w: &mut TagWriter<ScriptDest>, call: &Call) -> Result<(), TagWriterError> {
    match call {
        Call::W(t, Opt::Default) => w.write(t),
        Call::W(t, Opt::Width(n)) => w.write_advanced(t, WriteOptions::set_size_byte_count(*n)),
        Call::W(t, Opt::Unknown) => w.write_advanced(t, WriteOptions::is_unknown_sized_element()),
        Call::WDep(t) => w.write_unknown_size(t),
        Call::Raw(id, d) => w.write_raw(*id, d),
        Call::Flush => w.flush(),
    }
}
fn is_io(e: &TagWriterError) -> bool { matches!(e, TagWriterError::WriteError { .. }) }

pub fn alphabet(thorough: bool) -> Vec<Call> {
    use bs::*;
    let st = |id| T::M(id, Master::Start);
    let en = |id| T::M(id, Master::End);
    let mut v = vec![
        Call::W(st(ROOT), Opt::Default), Call::W(st(ROOT), Opt::Unknown), Call::W(st(ROOT), Opt::Width(1)), Call::W(en(ROOT), Opt::Default),
        Call::W(st(PARENT), Opt::Default), Call::W(st(PARENT), Opt::Width(1)), Call::W(st(PARENT), Opt::Unknown), Call::W(en(PARENT), Opt::Default),
        Call::W(T::U(UINT, 5), Opt::Default), Call::W(T::U(UINT, 300), Opt::Width(2)),
        Call::W(T::I(INT, -3), Opt::Default), Call::W(T::F(FLT, 1.5), Opt::Default),
        Call::W(T::B(BIN, vec![7; 127]), Opt::Default), Call::W(T::B(BIN, vec![7; 127]), Opt::Width(1)),
        // inside a master opened with width 1 these make its content exactly 127 (the reserved all-ones size: must be refused) and 126 (the largest that fits)
        Call::W(T::B(BIN, vec![7; 125]), Opt::Default), Call::W(T::B(BIN, vec![7; 124]), Opt::Default),
        Call::W(T::U(CHILD, 7), Opt::Default),
        Call::W(T::M(PARENT, Master::Full(vec![T::U(CHILD, 1)])), Opt::Default),
        Call::W(T::M(PARENT, Master::Full(vec![T::U(CHILD, 1), T::U(UINT, 2)])), Opt::Default),
        Call::W(T::M(PARENT, Master::Full(vec![T::U(CHILD, 1)])), Opt::Width(2)),
        Call::W(T::M(PARENT, Master::Full(vec![T::M(SUB, Master::Full(vec![T::U(LEAF, 1)])), T::U(CHILD, 2)])), Opt::Width(2)),   // nested Full under an explicit width: the width is the outer master's alone
        Call::W(T::M(PARENT, Master::Full(vec![T::U(UINT, 2)])), Opt::Default),                                  // invalid FIRST child
        Call::W(T::M(PARENT, Master::Full(vec![T::U(CHILD, 1), T::M(PARENT, Master::End)])), Opt::Default),     // a child that ends the Full master itself
        Call::W(T::Raw(0x4321, vec![1, 2]), Opt::Default), Call::W(T::Raw(0x11, vec![1]), Opt::Default),
        Call::W(T::U(UINT, 5), Opt::Unknown),
        Call::W(T::B(VOID, vec![]), Opt::Default),
        Call::W(st(OTHER), Opt::Default), Call::W(en(OTHER), Opt::Default),
        Call::Flush,
    ];
    if thorough {
        v.extend(vec![
            Call::W(st(ROOT), Opt::Width(2)), Call::WDep(st(PARENT)), Call::WDep(T::U(UINT, 1)),
            Call::W(T::S(STR, "ab".to_string()), Opt::Width(3)), Call::W(T::B(BIN, vec![]), Opt::Default),
            Call::W(T::M(ROOT, Master::Full(vec![T::M(PARENT, Master::Full(vec![T::U(CHILD, 1)])), T::U(UINT, 2)])), Opt::Width(4)),
            Call::W(T::M(PARENT, Master::Full(vec![T::B(VOID, vec![0; 126])])), Opt::Width(1)),
            Call::Raw(0xEC, vec![0; 3]), Call::W(st(SUB), Opt::Unknown), Call::W(T::U(LEAF, 9), Opt::Default), Call::W(en(SUB), Opt::Default),
            Call::W(T::U(DEEP, 1), Opt::Default), Call::W(T::B(CRC, vec![1]), Opt::Default), Call::W(T::U(LONG, 70000), Opt::Width(8)),
        ]);
    }
    v
}

/// read `bytes` back with the strict iterator (EOF closing on) until None / first error
fn read_back(bytes: &[u8], allow_raw: bool) -> (Vec<T>, Option<String>) {
    let mut it: crate::TagIterator<&[u8], T> = crate::TagIterator::new(bytes, &[]);
    if allow_raw { it.allow_errors(&[crate::iterator::AllowableErrors::InvalidTagIds]); }
    let mut out = Vec::new();
    for _ in 0..10_000 {
        match it.next() { None => return (out, None), Some(Ok(t)) => out.push(t), Some(Err(e)) => return (out, Some(format!("{:?}", e))) }
    }
    (out, Some("no termination".into()))
}

struct Hist { calls: Vec<Call>, accepted: Vec<T>, conformant: bool, pending_unknown: Vec<u64> }

fn step(table: &bs::Table, w: &mut TagWriter<ScriptDest>, call: &Call, h: &mut Hist, rep: &mut Report) {
    let pre = snap(w);
    let twin0 = if matches!(call, Call::W(T::M(_, Master::Full(_)), _) | Call::WDep(_)) { Some(dup(w)) } else { None };
    let exp = expected(table, &pre, call);
    let r = std::panic::catch_unwind(std::panic::AssertUnwindSafe(|| apply(w, call)));
    let ctx = |h: &Hist| format!("history=[{}] call={}", h.calls.iter().map(show_call).collect::<Vec<_>>().join(" ; "), show_call(call));
    let r = match r { Ok(r) => r, Err(_) => { rep.clause("C19/C05w: writer calls do not panic on consistent specifications", false, || ctx(h)); h.calls.push(call.clone()); return; } };
    let post = snap(w);
    rep.clause("C10: wf_writer (Known(start) <= |wb|, starts monotone) is preserved by every call", wf(&post), || ctx(h));
    rep.clause("C10: bytes handed to the destination are never retracted or altered (dest is a prefix of dest')", post.dest.starts_with(&pre.dest), || ctx(h));
    match (&r, &exp) {
        (Err(e), _) if is_io(e) => {}
        (Err(_), Exp::Rejected(_)) if matches!(call, Call::Flush) => {
            rep.clause("C19: a rejected flush() leaves dest, working buffer and open masters unchanged", post == pre, || ctx(h));
        }
        (Err(_), Exp::Rejected(_)) => {
            rep.clause("C19: a rejected (non-I/O) write leaves dest, working buffer and open masters unchanged", post == pre, || ctx(h));
        }
        (Err(e), Exp::Ok(_)) => {
            rep.clause("C11w/C01: the writer accepts every call the specification allows (path pattern matches, size representable)", false, || format!("{} error={:?}", ctx(h), e));
            rep.clause("C19: a rejected (non-I/O) write leaves dest, working buffer and open masters unchanged", post == pre, || ctx(h));
        }
        (Ok(()), Exp::Rejected(why)) if matches!(call, Call::W(T::M(..), Opt::Unknown) | Call::WDep(T::M(..))) => {
            let why = *why;
            rep.clause("C11w: an unknown-size master Start is validated against the open chain like any other tag", false, || format!("{} expected-rejection={}", ctx(h), why));
            h.conformant = false;
        }
        (Ok(()), Exp::Rejected(why)) => {
            let why = *why;
            if why.starts_with("size") {
                rep.clause("C09: an explicit size-field width is honoured exactly - a size that width cannot carry is refused, never written in another width", false, || format!("{} expected-rejection={}", ctx(h), why));
            }
            rep.clause("C11w/C19: the writer rejects: tag not allowed under the open chain / unrepresentable size / unknown size on non-master / malformed raw id / mismatched End / invalid child of Full", false, || format!("{} expected-rejection={}", ctx(h), why));
            h.conformant = false;
        }
        (Ok(()), Exp::Ok(s)) => {
            rep.clause("C09/C10/C01: post-state = specified state (element bytes appended, back-patched header of exactly the stored width, flushed iff no known-size master open)", post == *s, || format!("{} got dest={} wb={} open={:?} want dest={} wb={} open={:?}", ctx(h), rf::hex(&post.dest), rf::hex(&post.wb), post.open, rf::hex(&s.dest), rf::hex(&s.wb), s.open));
            if any_known(&pre.open) && any_known(&post.open) {
                rep.clause("C10: while a known-size master is open nothing is handed over", post.dest == pre.dest, || ctx(h));
            }
            if !any_known(&post.open) && !matches!(call, Call::W(_, Opt::Unknown) | Call::WDep(_)) {
                rep.clause("C10: after a successful element / Full / End / flush with no known-size master open, every accepted byte has been handed over", post.wb.is_empty(), || ctx(h));
            }
        }
    }
    // C09: Full == Start, children, End ; deprecated == option based   (twin writer from the same pre-state)
    match call {
        Call::W(T::M(id, Master::Full(children)), opt) => {
            let mut tw = twin0.unwrap();
            let mut tr = apply(&mut tw, &Call::W(T::M(*id, Master::Start), opt.clone()));
            if tr.is_ok() { for c in children { tr = apply(&mut tw, &Call::W(c.clone(), Opt::Default)); if tr.is_err() { break; } } }
            if tr.is_ok() { tr = apply(&mut tw, &Call::W(T::M(*id, Master::End), Opt::Default)); }
            if tr.is_ok() && r.is_ok() {
                rep.clause("C09: a Full master produces byte for byte what Start, children, End produce", snap(&tw) == post, || ctx(h));
            } else {
                rep.clause("C09: a Full master is accepted exactly when Start, children, End are", tr.is_ok() == r.is_ok(), || ctx(h));
            }
        }
        Call::WDep(t) => {
            let mut tw = twin0.unwrap();
            let tr = apply(&mut tw, &Call::W(t.clone(), Opt::Unknown));
            rep.clause("C09: the deprecated unknown-size call equals the option-based one (result and state)", tr.is_ok() == r.is_ok() && snap(&tw) == post, || ctx(h));
        }
        _ => {}
    }
    if r.is_ok() {
        // An End of an unknown-size master produces no bytes: the reader can only see it through the element that
        // follows (C07 excludes the inherently ambiguous case where that element does not end the master, e.g. a global).
        if let Call::W(t, _) | Call::WDep(t) = call {
            match t {
                T::M(id, Master::End) => {
                    if matches!(pre.open.last(), Some((_, Unknown, _))) { h.pending_unknown.insert(0, *id); } else { h.pending_unknown.clear(); }
                }
                other => {
                    if let Some(outer) = h.pending_unknown.first() { if !rf::ended_by(table, *outer, other.get_id()) { h.conformant = false; } }
                    h.pending_unknown.clear();
                }
            }
        }
        match call { Call::W(t, _) | Call::WDep(t) => h.accepted.push(t.clone()), Call::Raw(id, d) => h.accepted.push(T::Raw(*id, d.clone())), Call::Flush => {} }
        if let Call::Raw(..) = call { h.conformant = false; } // write_raw bypasses the specification
        if let Call::Flush = call { h.conformant = false; }   // flush closes masters without End items in `accepted`
    }
    h.calls.push(call.clone());
    // C01/C10: what the destination holds parses to exactly the tags written so far
    if r.is_ok() && h.conformant && !any_known(&post.open) && post.wb.is_empty() {
        let mut want = Vec::new();
        for t in &h.accepted { rf::flatten(t, &mut want); }
        // Ends of unknown-size masters produce no bytes: the reader supplies them (at the closing element or at EOF)
        for (id, _, _) in post.open.iter().rev() { want.push(T::M(*id, Master::End)); }
        let starts_at_root = h.accepted.first().map(|t| rf::entry(table, t.get_id()).map(|e| e.1.is_empty() || rf::is_global(table, t.get_id())).unwrap_or(false)).unwrap_or(true);
        if starts_at_root {
            let has_raw = want.iter().any(|t| matches!(t, T::Raw(..)));
            let (got, err) = read_back(&post.dest, has_raw);
            let same = err.is_none() && got.len() == want.len() && got.iter().zip(want.iter()).all(|(a, b)| rf::tag_eq(a, b));
            rep.clause("C01/C10: the bytes handed over read back (strict iterator) as exactly the accepted tags, masters as Start/End", same,
                       || format!("{} dest={} got=[{}] err={:?} want=[{}]", ctx(h), rf::hex(&post.dest), got.iter().map(rf::show).collect::<Vec<_>>().join(","), err, want.iter().map(rf::show).collect::<Vec<_>>().join(",")));
        }
    }
}

fn run_seq(table: &bs::Table, seq: &[&Call], chunk: usize, rep: &mut Report) -> Vec<u8> {
    let mut w = TagWriter::new(ScriptDest { data: Vec::new(), chunk, writes: 0 });
    let mut h = Hist { calls: Vec::new(), accepted: Vec::new(), conformant: true, pending_unknown: Vec::new() };
    for c in seq { step(table, &mut w, c, &mut h, rep); }
    let _ = std::panic::catch_unwind(std::panic::AssertUnwindSafe(|| { let _ = w.flush(); }));
    w.dest.data.clone()
}

pub fn unit_writer(depth: usize, thorough: bool) -> Report {
    let table = bs::doc_table();
    bs::set_table(table.clone());
    let mut rep = Report::new("bx_writer");
    let alpha = alphabet(thorough);
    rep.notes.push(format!("BOUNDED: {} calls in the alphabet, all call sequences of length <= {}, destination chunk sizes {{whole, 1, 3}}", alpha.len(), depth));
    // the enumeration is split over worker threads by the first call of the sequence
    let mut handles = Vec::new();
    for first in 0..alpha.len() {
        let alpha = alpha.clone();
        handles.push(std::thread::Builder::new().stack_size(64 << 20).spawn(move || {
            let table = bs::doc_table();
            bs::set_table(table.clone());
            let mut rep = Report::new("worker");
            let mut idx = vec![0usize; depth];
            idx[0] = first;
            loop {
                let seq: Vec<&Call> = idx.iter().map(|i| &alpha[*i]).collect();
                let base = run_seq(&table, &seq, 0, &mut rep);
                rep.cases += 1;
                if !base.is_empty() { rep.nontrivial += 1; }
                if rep.cases % 7 == 0 || depth <= 2 {
                    for chunk in [1usize, 3] {
                        let mut quiet = Report::new("q");
                        let other = run_seq(&table, &seq, chunk, &mut quiet);
                        rep.clause("C09: the bytes delivered do not depend on how the destination splits them into partial writes", other == base,
                                   || format!("seq=[{}] chunk={}", seq.iter().map(|c| show_call(c)).collect::<Vec<_>>().join(" ; "), chunk));
                    }
                }
                if rep.samples.len() < 1 && rep.cases % 997 == 1 { rep.samples.push(format!("[{}] -> {}", seq.iter().map(|c| show_call(c)).collect::<Vec<_>>().join(" ; "), rf::hex(&base))); }
                let mut k = depth;
                let mut done = true;
                while k > 1 { k -= 1; idx[k] += 1; if idx[k] < alpha.len() { done = false; break; } idx[k] = 0; }
                if done { break; }
            }
            rep
        }).unwrap());
    }
    for h in handles { match h.join() { Ok(r) => rep.merge(r), Err(_) => rep.clause("C19/C05w: writer calls do not panic on consistent specifications", false, || "a worker thread of the enumeration died".to_string()) } }
    rep
}

/// Boundary lattice for the payload encoders (bounded companion of the Kani harnesses k_w_*; gives concrete inputs
/// fast): every value 2^k + d, -(2^k) + d for k in 0..=63, d in -2..=2, plus extremes, through the REAL writer and
/// the REAL decoders / iterator.
pub fn unit_payload() -> Report {
    let table = bs::doc_table();
    bs::set_table(table.clone());
    let mut rep = Report::new("bx_payload");
    rep.notes.push("BOUNDED: boundary lattice 2^k + d and -(2^k) + d, k in 0..=63, d in -2..=2, plus 0, MIN, MAX for u64 / i64; float bit patterns at exponent / mantissa boundaries".to_string());
    let mut us: Vec<u64> = vec![0, u64::MAX];
    let mut is: Vec<i64> = vec![0, i64::MIN, i64::MAX];
    for k in 0..64u32 { for d in -2i128..=2 {
        let v = (1i128 << k) + d; if v >= 0 && v <= u64::MAX as i128 { us.push(v as u64); }
        if v >= i64::MIN as i128 && v <= i64::MAX as i128 { is.push(v as i64); }
        let n = -(1i128 << k) + d; if n >= i64::MIN as i128 && n <= i64::MAX as i128 { is.push(n as i64); }
    } }
    let mut fs: Vec<u64> = vec![0, 1, 0x8000_0000_0000_0000, 0x3ff8_0000_0000_0000, 0x7ff0_0000_0000_0000, 0xfff0_0000_0000_0000, 0x7ff8_0000_0000_0001, 0x7fef_ffff_ffff_ffff, 0x0010_0000_0000_0000, 0x000f_ffff_ffff_ffff, 0x4009_21fb_5444_2d18, u64::MAX];
    // every 29th biased exponent (subnormal .. infinity) x four mantissa patterns x both signs, plus values around the f32 range limits
    let mut e = 0u64;
    while e <= 0x7ff {
        for m in [0u64, 1, 0x8_0000_2000_0001, 0xf_ffff_ffff_ffff] { for sgn in [0u64, 1] { fs.push((sgn << 63) | (e << 52) | m); } }
        e += 29;
    }
    for v in [2.5e-10f64, -1e-12, 1e-300, 1e-45, 1.0000000000000002, 0.1, 16777217.0, 1e39, f32::MAX as f64 * 1.0000001, f32::MIN_POSITIVE as f64 * 0.5, f64::EPSILON, f64::EPSILON / 2.0, 3.7e-9, -3.6e-9] { fs.push(v.to_bits()); }
    let one = |t: T, rep: &mut Report| {
        let mut w = TagWriter::new(ScriptDest::default());
        let r0 = w.write(&T::M(bs::ROOT, Master::Start));
        let r1 = w.write(&t);
        let r2 = w.write(&T::M(bs::ROOT, Master::End));
        rep.cases += 1; rep.nontrivial += 1;
        let ok_w = r0.is_ok() && r1.is_ok() && r2.is_ok();
        rep.clause("C16/C01: every u64 / i64 / f64 element is accepted by the writer", ok_w, || rf::show(&t));
        if !ok_w { return; }
        let bytes = w.dest.data.clone();
        // Root header is 2 bytes (id 0x81, one size byte); the element: 1 id byte, 1 size byte, payload
        let want = payload(&t).unwrap();
        let got = bytes.get(4..).map(|x| x.to_vec()).unwrap_or_default();
        rep.clause("C16: integers use the minimal 1/2/4/8-byte big-endian (two's complement) width, floats 8 bytes", got == want, || format!("{} bytes={} want-payload={}", rf::show(&t), rf::hex(&bytes), rf::hex(&want)));
        let dec_ok = match &t {
            T::U(_, v) => matches!(crate::tools::arr_to_u64(&got), Ok(x) if x == *v),
            T::I(_, v) => matches!(crate::tools::arr_to_i64(&got), Ok(x) if x == *v),
            T::F(_, v) => matches!(crate::tools::arr_to_f64(&got), Ok(x) if x.to_bits() == v.to_bits()),
            _ => true,
        };
        rep.clause("C16: the payload decoders invert the writer's encoding (identical value, floats bit for bit)", dec_ok, || format!("{} payload={}", rf::show(&t), rf::hex(&got)));
        let (items, err) = read_back(&bytes, false);
        let same = err.is_none() && items.len() == 3 && rf::tag_eq(&items[1], &t);
        rep.clause("C01/C16: the element reads back (strict iterator) with the identical value", same, || format!("{} bytes={} got=[{}] err={:?}", rf::show(&t), rf::hex(&bytes), items.iter().map(rf::show).collect::<Vec<_>>().join(","), err));
        // C02: read -> re-write -> read is a fixpoint on boundary values
        if err.is_none() {
            let mut w2 = TagWriter::new(ScriptDest::default());
            let mut ok2 = true;
            for it in &items { if w2.write(it).is_err() { ok2 = false; } }
            let (items2, err2) = read_back(&w2.dest.data, false);
            let fix = ok2 && err2.is_none() && items2.len() == items.len() && items2.iter().zip(items.iter()).all(|(a, b)| rf::tag_eq(a, b));
            rep.clause("C02: re-writing the tags read from a document and reading again yields the identical values (boundary lattice)", fix, || format!("{} first-read=[{}] rewritten={} second-read=[{}] err={:?}", rf::show(&t), items.iter().map(rf::show).collect::<Vec<_>>().join(","), rf::hex(&w2.dest.data), items2.iter().map(rf::show).collect::<Vec<_>>().join(","), err2));
        }
    };
    for v in us { one(T::U(bs::UINT, v), &mut rep); }
    for v in is { one(T::I(bs::INT, v), &mut rep); }
    for b in fs.iter() { one(T::F(bs::FLT, f64::from_bits(*b)), &mut rep); }
    // C02 from hand-made bytes (not from the writer's own output): Root{ Flt } with an 8-byte and, where exact, a 4-byte payload;
    // Root{ UInt / Int } with zero- / sign-padded 8-byte payloads.  read -> write -> read must give the values of the first read.
    let fix = |doc: Vec<u8>, what: String, rep: &mut Report| {
        let (items, err) = read_back(&doc, false);
        rep.cases += 1; rep.nontrivial += 1;
        rep.clause("C02: a hand-encoded element (8-byte / 4-byte float, padded integer) is read by the strict iterator", err.is_none() && items.len() == 3, || format!("{} doc={} err={:?}", what, rf::hex(&doc), err));
        if err.is_some() || items.len() != 3 { return; }
        let mut w2 = TagWriter::new(ScriptDest::default());
        let mut ok2 = true;
        for it in &items { if w2.write(it).is_err() { ok2 = false; } }
        let (items2, err2) = read_back(&w2.dest.data, false);
        let same = ok2 && err2.is_none() && items2.len() == items.len() && items2.iter().zip(items.iter()).all(|(a, b)| rf::tag_eq(a, b));
        rep.clause("C02: values decoded from hand-encoded elements keep their meaning when re-encoded (read -> write -> read, bit for bit)", same, || format!("{} doc={} first-read=[{}] rewritten={} second-read=[{}] err={:?}", what, rf::hex(&doc), items.iter().map(rf::show).collect::<Vec<_>>().join(","), rf::hex(&w2.dest.data), items2.iter().map(rf::show).collect::<Vec<_>>().join(","), err2));
    };
    for b in fs.iter() {
        let v = f64::from_bits(*b);
        let mut doc = vec![bs::ROOT as u8, 0x8A, bs::FLT as u8, 0x88]; doc.extend_from_slice(&b.to_be_bytes());
        fix(doc, format!("f64 bits {:016x}", b), &mut rep);
        let n = v as f32;
        if (n as f64).to_bits() == *b {
            let mut doc = vec![bs::ROOT as u8, 0x86, bs::FLT as u8, 0x84]; doc.extend_from_slice(&n.to_be_bytes());
            fix(doc, format!("f32 bits {:08x}", n.to_bits()), &mut rep);
        }
    }
    // strings: trailing / embedded NULs and multi-byte characters are payload like any other byte (C01 write -> read, C02 read -> write -> read)
    for st in ["", "a", "a\0", "a\0\0", "\0", "\0\0\0", "é\0\0", "a\0b", "ab "] {
        let pl = st.as_bytes();
        let mut doc = vec![bs::ROOT as u8, 0x80 + 2 + pl.len() as u8, bs::STR as u8, 0x80 + pl.len() as u8]; doc.extend_from_slice(pl);
        fix(doc, format!("string {:?}", st), &mut rep);
        let mut w = TagWriter::new(ScriptDest::default());
        let ok = w.write(&T::M(bs::ROOT, Master::Start)).is_ok() && w.write(&T::S(bs::STR, st.to_string())).is_ok() && w.write(&T::M(bs::ROOT, Master::End)).is_ok();
        let (items, err) = read_back(&w.dest.data, false);
        rep.cases += 1; rep.nontrivial += 1;
        rep.clause("C01/C16: the element reads back (strict iterator) with the identical value", ok && err.is_none() && items.len() == 3 && rf::tag_eq(&items[1], &T::S(bs::STR, st.to_string())), || format!("string {:?} bytes={} got=[{}] err={:?}", st, rf::hex(&w.dest.data), items.iter().map(rf::show).collect::<Vec<_>>().join(","), err));
    }
    for k in (0..64u32).step_by(7) { for d in [-1i128, 0, 1] {
        let v = (1i128 << k) + d;
        if v >= 0 && v <= u64::MAX as i128 { let mut doc = vec![bs::ROOT as u8, 0x8A, bs::UINT as u8, 0x88]; doc.extend_from_slice(&(v as u64).to_be_bytes()); fix(doc, format!("padded u64 {}", v), &mut rep); }
        for x in [v, -v] { if x >= i64::MIN as i128 && x <= i64::MAX as i128 { let mut doc = vec![bs::ROOT as u8, 0x8A, bs::INT as u8, 0x88]; doc.extend_from_slice(&(x as i64).to_be_bytes()); fix(doc, format!("padded i64 {}", x), &mut rep); } }
    } }
    rep
}
