// verif_bx_entry.rs — dispatch of the bounded units (crate::verif_bx_entry), called by examples/verif_replay --bx
#![allow(dead_code)]

pub fn run(unit: &str, args: &[String]) -> String {
    let num = |i: usize, d: usize| args.get(i).and_then(|s| s.parse::<usize>().ok()).unwrap_or(d);
    let flag = |s: &str| args.iter().any(|a| a == s);
    let rep = match unit {
        "bx_writer" => crate::tag_writer::verif_bx_writer::unit_writer(num(0, 3), flag("thorough")),
        "bx_payload" => crate::tag_writer::verif_bx_writer::unit_payload(),
        "bx_iter_bytes" => crate::tag_iterator::verif_bx_iter::unit_bytes(num(0, 4), flag("thorough")),
        "bx_iter_docs" => crate::tag_iterator::verif_bx_iter::unit_docs(num(0, 3), flag("thorough")),
        "bx_iter_sizes" => crate::tag_iterator::verif_bx_iter::unit_sizes(),
        "bx_iter_ioerr" => crate::tag_iterator::verif_bx_iter::unit_ioerr(),
        "bx_path" => crate::spec_util::verif_bx_path::unit_path(num(0, 2), num(1, 3)),
        _ => return format!("{{\"error\":\"unknown unit {}\"}}", unit),
    };
    rep.to_json()
}
