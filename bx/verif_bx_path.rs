// verif_bx_path.rs — bounded companion of the Verus unit `path_matcher` (child module of src/spec_util.rs).
// It (a) discharges, within a bound, the contracts the Verus unit ASSUMES (is_parent; slice equality is std),
// and (b) serves as the refutation search that gives a concrete failing input when a Verus obligation
// fails (Verus produces no counterexample).  Oracle: verif_bxref::path_matches / ended_by.
#![allow(dead_code)]

use super::*;
use crate::verif_bxref::{self as rf, Report};
use crate::verif_bxspec::{self as bs, Entry, Table, T};
use ebml_iterable_specification::TagDataType;

const TAG: u64 = 0x99;

fn parts() -> Vec<PathPart> {
    use PathPart::*;
    vec![Id(1), Id(2), Id(3), Global((None, None)), Global((Some(1), None)), Global((Some(1), Some(2))), Global((None, Some(1))), Global((Some(2), Some(2))), Global((Some(0), Some(0)))]
}

fn table_with(path: Vec<PathPart>, variant: usize) -> Table {
    use PathPart::*;
    let e = |id, ty, p: Vec<PathPart>| Entry { id, ty, path: bs::leak(p) };
    // three master layouts: a chain 1/2/3, a flat forest, and one where 3 sits under a placeholder
    let m = match variant {
        0 => vec![e(1, TagDataType::Master, vec![]), e(2, TagDataType::Master, vec![Id(1)]), e(3, TagDataType::Master, vec![Id(1), Id(2)])],
        1 => vec![e(1, TagDataType::Master, vec![]), e(2, TagDataType::Master, vec![]), e(3, TagDataType::Master, vec![Id(2)])],
        _ => vec![e(1, TagDataType::Master, vec![]), e(2, TagDataType::Master, vec![Id(1)]), e(3, TagDataType::Master, vec![Id(1), Global((None, None))])],
    };
    let mut entries = m;
    entries.push(e(TAG, TagDataType::UnsignedInt, path));
    Table { entries }
}

/// reference: number of masters that stay open (C07/C11), written independently of open_path_len
fn ref_open_len(t: &Table, tag: u64, chain: &[(u64, EBMLSize)]) -> usize {
    let mut fu = chain.len();
    while fu > 0 && chain[fu - 1].1 == EBMLSize::Unknown { fu -= 1; }
    for k in fu..chain.len() { if rf::ended_by(t, chain[k].0, tag) { return k; } }
    chain.len()
}

pub fn unit_path(max_path: usize, max_chain: usize) -> Report {
    let mut rep = Report::new("bx_path");
    let ps = parts();
    rep.notes.push(format!("BOUNDED: every declared path of <= {} parts over {} part shapes x 3 master layouts x every chain of <= {} masters over the master ids {{1,2,3}} x every known/unknown-size flag assignment; tags: the element under test, the three masters and an id outside the specification", max_path, ps.len(), max_chain));
    let ids = [1u64, 2, 3];
    // all paths
    let mut paths: Vec<Vec<PathPart>> = vec![vec![]];
    let mut frontier: Vec<Vec<PathPart>> = vec![vec![]];
    for _ in 0..max_path {
        let mut next = Vec::new();
        for p in &frontier { for q in &ps { let mut n = p.clone(); n.push(*q); next.push(n); } }
        paths.extend(next.iter().cloned());
        frontier = next;
    }
    // all chains with flags
    let mut chains: Vec<Vec<(u64, EBMLSize)>> = vec![vec![]];
    let mut fr: Vec<Vec<(u64, EBMLSize)>> = vec![vec![]];
    for _ in 0..max_chain {
        let mut next = Vec::new();
        for c in &fr { for id in ids { for sz in [EBMLSize::Known(5), EBMLSize::Unknown] { let mut n = c.clone(); n.push((id, sz)); next.push(n); } } }
        chains.extend(next.iter().cloned());
        fr = next;
    }
    for path in &paths {
        for variant in 0..3 {
            let table = table_with(path.clone(), variant);
            bs::set_table(table.clone());
            // the assumed contract of is_parent, and is_sibling / is_ended_by, for every pair of ids
            for cur in [1u64, 2, 3, TAG, 7] { for test in [1u64, 2, 3, TAG, 7] {
                let want_parent = rf::entry(&table, cur).map(|e| e.1.iter().any(|p| matches!(p, PathPart::Id(a) if *a == test))).unwrap_or(false);
                rep.clause("C07/C11: is_parent(cur, test) <=> test occurs as an Id in cur's declared path (contract ASSUMED by the Verus unit)", is_parent::<T>(cur, test) == want_parent, || format!("table#{} path={:?} cur={} test={}", variant, path, cur, test));
                if rf::entry(&table, cur).is_some() {
                    rep.clause("C07: is_ended_by(open, next) <=> next is a sibling, a new instance of an ancestor, or a root element of the specification", is_ended_by::<T>(cur, test) == rf::ended_by(&table, cur, test), || format!("table#{} path={:?} cur={} test={}", variant, path, cur, test));
                }
            } }
            for chain in &chains {
                rep.cases += 1;
                for tag in [TAG, 1, 2, 3] {
                    let ctx = || format!("table#{} path({:x})={:?} chain={:?} tag={:x}", variant, TAG, path, chain, tag);
                    let ol = ref_open_len(&table, tag, chain);
                    rep.clause("C07/C11: open_path_len = index of the outermost master of the trailing unknown-size run that the element ends (else the whole chain)", open_path_len::<T>(tag, chain) == ol, &ctx);
                    let tp = rf::entry(&table, tag).unwrap().1;
                    let want = rf::path_matches(tp, &chain[..ol].iter().map(|c| c.0).collect::<Vec<_>>());
                    let got = validate_tag_path::<T>(tag, chain.iter().map(|c| (c.0, c.1, 0usize)));
                    if want { rep.nontrivial += 1; }
                    rep.clause("C11: validate_tag_path accepts iff the chain that remains after implicit closing matches the declared path pattern", got == want, &ctx);
                    rep.clause("C11: is_valid_in_path = validate_tag_path (the iterator-taking wrapper only collects)", is_valid_in_path::<T>(tag, chain) == got, &ctx);
                }
            }
        }
    }
    rep.samples.push(format!("path={:?} chain={:?}", paths[paths.len() / 2], chains[chains.len() / 3]));
    rep
}
