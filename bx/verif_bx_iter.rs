// verif_bx_iter.rs — bounded stand-in (B-X) for the iterator's orchestration layer
// (peek_valid_tag_header, read_tag, read_next, buffer_master, roll_up_children, try_recover, next);
// child module of src/tag_iterator.rs.  DESIGN.md §2.4: these functions are out of reach of both
// verifiers (measured), so their contracts are executed natively around the real code over an
// exhaustively enumerated, bounded input space.  Oracles are (a) predicates over (input bytes, emitted
// items, offsets) built from the independent vocabulary in verif_bxref, and (b) equalities between
// runs of the real code under different configurations / encodings — never a second parser.
#![allow(dead_code)]

use super::*;
use crate::verif_bxref::{self as rf, Hdr, Report};
use crate::verif_bxspec::{self as bs, T};
use crate::tag_iterator_util::AllowableErrors;

// ---------------------------------------------------------------------------------------------
// scripted source
// ---------------------------------------------------------------------------------------------
pub struct ScriptSrc { pub data: Vec<u8>, pub pos: usize, pub chunk: Vec<usize>, pub k: usize, pub pauses: Vec<usize>, pub fail_at: Option<usize>, pub fail_once_at: Option<usize>, pub reads: usize, pub eof_polls: usize }
impl Read for ScriptSrc {
    fn read(&mut self, buf: &mut [u8]) -> std::io::Result<usize> {
        self.reads += 1;
        if let Some(f) = self.fail_at { if self.pos >= f { return Err(std::io::Error::new(std::io::ErrorKind::Other, "scripted failure")); } }
        if let Some(f) = self.fail_once_at { if self.pos >= f { self.fail_once_at = None; return Err(std::io::Error::new(std::io::ErrorKind::ConnectionReset, "scripted one-shot failure")); } }
        if let Some(i) = self.pauses.iter().position(|p| *p == self.pos) { self.pauses.remove(i); return Ok(0); }
        if self.pos >= self.data.len() && !buf.is_empty() {
            // watchdog: a caller that keeps polling an exhausted source is not making progress ("no hang")
            self.eof_polls += 1;
            if self.eof_polls > 5000 { panic!("the exhausted source was polled more than 5000 times: next() does not return"); }
        }
        let mut n = (self.data.len() - self.pos).min(buf.len());
        if !self.chunk.is_empty() { n = n.min(self.chunk[self.k % self.chunk.len()].max(1)); self.k += 1; }
        // never read across a pending pause point
        if let Some(p) = self.pauses.iter().filter(|p| **p > self.pos).min() { n = n.min(*p - self.pos); }
        buf[..n].copy_from_slice(&self.data[self.pos..self.pos + n]);
        self.pos += n;
        Ok(n)
    }
}

#[derive(Clone, Debug)]
pub struct Cfg { pub cap: usize, pub chunk: Vec<usize>, pub allow: u8, pub buffered: Vec<u64>, pub max: Option<Option<usize>>, pub eof_close: bool, pub pauses: Vec<usize> }
impl Cfg {
    pub fn strict() -> Cfg { Cfg { cap: 65536, chunk: vec![], allow: 0, buffered: vec![], max: None, eof_close: true, pauses: vec![] } }
    pub fn show(&self) -> String { format!("cap={} chunk={:?} allow={} buffered={:x?} max={:?} eof_close={} pauses={:?}", self.cap, self.chunk, self.allow, self.buffered, self.max, self.eof_close, self.pauses) }
}

#[derive(Clone, Debug, PartialEq)]
pub enum E {
    Eof { start: usize, id: Option<u64>, size: Option<usize>, partial: Option<Vec<u8>> },
    BadId { pos: usize, id: u64 }, BadData { pos: usize, id: u64 }, Hier { id: u64, parent: Option<u64> },
    Oversize { pos: usize, id: u64, size: usize }, TooBig { pos: usize, id: u64, size: usize },
    Read, TagData { id: u64 },
}
fn conv(e: &TagIteratorError) -> E {
    match e {
        TagIteratorError::UnexpectedEOF { tag_start, tag_id, tag_size, partial_data } => E::Eof { start: *tag_start, id: *tag_id, size: *tag_size, partial: partial_data.clone() },
        TagIteratorError::CorruptedFileData(c) => match c {
            CorruptedFileError::InvalidTagId { position, tag_id } => E::BadId { pos: *position, id: *tag_id },
            CorruptedFileError::InvalidTagData { position, tag_id } => E::BadData { pos: *position, id: *tag_id },
            CorruptedFileError::HierarchyError { found_tag_id, current_parent_id } => E::Hier { id: *found_tag_id, parent: *current_parent_id },
            CorruptedFileError::OversizedChildElement { position, tag_id, size } => E::Oversize { pos: *position, id: *tag_id, size: *size },
            CorruptedFileError::InvalidTagSize { position, tag_id, size } => E::TooBig { pos: *position, id: *tag_id, size: *size },
        },
        TagIteratorError::ReadError { .. } => E::Read,
        TagIteratorError::CorruptedTagData { tag_id, .. } => E::TagData { id: *tag_id },
    }
}

#[derive(Clone, Debug, Default)]
pub struct Trace { pub items: Vec<(T, usize)>, pub err: Option<E>, pub panicked: Option<String>, pub ended: bool, pub peak_buf: usize, pub fused_ok: bool, pub too_many: bool, pub alloc_before_reject: bool }

fn show_items(items: &[(T, usize)]) -> String { items.iter().map(|(t, o)| format!("{}@{}", rf::show(t), o)).collect::<Vec<_>>().join(",") }
fn show_trace(t: &Trace) -> String { format!("[{}] err={:?}{}", show_items(&t.items), t.err, t.panicked.as_ref().map(|p| format!(" PANIC {}", p)).unwrap_or_default()) }

pub fn make(input: &[u8], cfg: &Cfg) -> TagIterator<ScriptSrc, T> {
    let src = ScriptSrc { data: input.to_vec(), pos: 0, chunk: cfg.chunk.clone(), k: 0, pauses: cfg.pauses.clone(), fail_at: None, fail_once_at: None, reads: 0, eof_polls: 0 };
    let buffered: Vec<T> = cfg.buffered.iter().map(|id| T::M(*id, Master::Start)).collect();
    let mut it: TagIterator<ScriptSrc, T> = TagIterator::with_capacity(src, &buffered, cfg.cap);
    let mut allow = Vec::new();
    if cfg.allow & 1 != 0 { allow.push(AllowableErrors::InvalidTagIds); }
    if cfg.allow & 2 != 0 { allow.push(AllowableErrors::HierarchyProblems); }
    if cfg.allow & 4 != 0 { allow.push(AllowableErrors::OversizedTags); }
    if cfg.allow != 0 { it.allow_errors(&allow); }
    if let Some(m) = cfg.max { it.set_max_allowable_tag_size(m); }
    if !cfg.eof_close { it.emit_master_end_when_eof(false); }
    it
}

/// Run the real iterator to the first error / None (resuming after pauses), recording offsets.
pub fn run(input: &[u8], cfg: &Cfg) -> Trace {
    let mut it = make(input, cfg);
    let mut tr = Trace::default();
    let limit = 4 * input.len() + 24;
    let mut pauses_left = cfg.pauses.len() + 1;
    loop {
        let before = it.buffer.len();
        let r = std::panic::catch_unwind(std::panic::AssertUnwindSafe(|| it.next()));
        tr.peak_buf = tr.peak_buf.max(it.buffer.len());
        match r {
            Err(p) => { tr.panicked = Some(p.downcast_ref::<String>().cloned().or_else(|| p.downcast_ref::<&str>().map(|s| s.to_string())).unwrap_or_default()); return tr; }
            Ok(None) => {
                if it.source.pos < it.source.data.len() && pauses_left > 0 { pauses_left -= 1; continue; }
                tr.ended = true;
                // fused: the source is exhausted, further calls keep returning None
                let a = std::panic::catch_unwind(std::panic::AssertUnwindSafe(|| (it.next().is_none(), it.next().is_none())));
                tr.fused_ok = matches!(a, Ok((true, true)));
                return tr;
            }
            Ok(Some(Ok(t))) => { let off = it.last_emitted_tag_offset(); tr.items.push((t, off)); }
            Ok(Some(Err(e))) => {
                let e = conv(&e);
                if matches!(e, E::TooBig { .. }) && it.buffer.len() > before.max(64) { tr.alloc_before_reject = true; } // growing an undersized buffer to a small header look-ahead (16 bytes today) is not a payload allocation
                tr.err = Some(e);
                return tr;
            }
        }
        if tr.items.len() > limit { tr.too_many = true; return tr; }
    }
}

// ---------------------------------------------------------------------------------------------
// documents: tag trees + an independent reference encoder
// ---------------------------------------------------------------------------------------------
#[derive(Clone, Debug)]
pub enum Node { M { id: u64, unknown: bool, width: usize, ch: Vec<Node> }, L { tag: T, width: usize } }

fn idb(id: u64) -> Vec<u8> { id.to_be_bytes().iter().copied().skip_while(|b| *b == 0).collect() }
fn sizef(n: usize, w: usize) -> Vec<u8> {
    let fits = |w: usize| (n as u128) < (1u128 << (7 * w)) - 1;
    let w = if w == 0 { (1..=8).find(|w| fits(*w)).unwrap() } else { w };
    let v = (n as u128) + (1u128 << (7 * w));
    (0..w).map(|k| (v >> (8 * (w - 1 - k))) as u8).collect()
}
fn leaf_payload(t: &T) -> Vec<u8> {
    match t {
        T::U(_, v) => { let b = v.to_be_bytes(); let n = if *v < 1 << 8 { 1 } else if *v < 1 << 16 { 2 } else if *v < 1 << 32 { 4 } else { 8 }; b[8 - n..].to_vec() }
        T::I(_, v) => { let b = v.to_be_bytes(); let n = if *v >= -128 && *v < 128 { 1 } else if *v >= -32768 && *v < 32768 { 2 } else if *v >= -(1i64 << 31) && *v < (1i64 << 31) { 4 } else { 8 }; b[8 - n..].to_vec() }
        T::F(_, v) => v.to_bits().to_be_bytes().to_vec(),
        T::S(_, v) => v.as_bytes().to_vec(),
        T::B(_, v) | T::Raw(_, v) => v.clone(),
        T::M(..) => vec![],
    }
}
/// bytes of the forest + the flat tag sequence with the offset of each tag's first byte (End: its Start's offset)
pub fn encode(nodes: &[Node], base: usize, out: &mut Vec<u8>, flat: &mut Vec<(T, usize)>) {
    for n in nodes {
        let off = base + out.len();
        match n {
            Node::L { tag, width } => {
                let p = leaf_payload(tag);
                out.extend(idb(tag.get_id()));
                out.extend(sizef(p.len(), *width));
                out.extend(p);
                flat.push((tag.clone(), off));
            }
            Node::M { id, unknown, width, ch } => {
                let mut inner = Vec::new();
                let mut iflat = Vec::new();
                let hdr_len = idb(*id).len() + if *unknown { 8 } else { 0 };
                // children offsets depend on the header length, which depends on the content length for known sizes
                let mut tmp = Vec::new();
                let mut tflat = Vec::new();
                encode(ch, 0, &mut tmp, &mut tflat);
                let sf = if *unknown { if *width == 1 { vec![0xFF] } else { vec![0x01, 0xFF, 0xFF, 0xFF, 0xFF, 0xFF, 0xFF, 0xFF] } } else { sizef(tmp.len(), *width) };
                let _ = hdr_len;
                let child_base = off + idb(*id).len() + sf.len();
                encode(ch, child_base, &mut inner, &mut iflat);
                out.extend(idb(*id));
                out.extend(sf);
                out.extend(inner);
                flat.push((T::M(*id, Master::Start), off));
                flat.extend(iflat);
                flat.push((T::M(*id, Master::End), off));
            }
        }
    }
}
pub fn encode_doc(nodes: &[Node]) -> (Vec<u8>, Vec<(T, usize)>) { let mut o = Vec::new(); let mut f = Vec::new(); encode(nodes, 0, &mut o, &mut f); (o, f) }

fn leaf_variants(id: u64, rich: bool) -> Vec<T> {
    use bs::*;
    match id {
        UINT => if rich { vec![T::U(UINT, 5), T::U(UINT, 0x1_0000)] } else { vec![T::U(UINT, 5)] },
        INT => if rich { vec![T::I(INT, -3), T::I(INT, 40000), T::I(INT, 128)] } else { vec![T::I(INT, -3), T::I(INT, 128)] },
        STR => if rich { vec![T::S(STR, "a".into()), T::S(STR, "\u{e9}\u{0}".into())] } else { vec![T::S(STR, "a".into())] },
        BIN => if rich { vec![T::B(BIN, vec![1, 2]), T::B(BIN, vec![])] } else { vec![T::B(BIN, vec![1, 2])] },
        FLT => vec![T::F(FLT, 1.5)],
        LONG => vec![T::U(LONG, 9)],
        WIDE3 => vec![T::U(WIDE3, 300)],
        WIDE4 => vec![T::B(WIDE4, vec![1, 2, 3])],
        CHILD => vec![T::U(CHILD, 7)],
        LEAF => vec![T::U(LEAF, 1)],
        OX => vec![T::U(OX, 2)],
        DEEP => vec![T::U(DEEP, 3)],
        VOID => vec![T::B(VOID, vec![])],
        CRC => vec![T::B(CRC, vec![9])],
        _ => vec![],
    }
}
fn children_of(parent: Option<u64>) -> Vec<u64> {
    use bs::*;
    match parent {
        None => vec![ROOT, OTHER, VOID],
        Some(ROOT) => vec![UINT, INT, STR, BIN, FLT, LONG, WIDE3, PARENT, VOID, CRC],
        Some(PARENT) => vec![CHILD, SUB, CRC, DEEP],
        Some(SUB) => vec![LEAF, DEEP, VOID],
        Some(OTHER) => vec![OX, WIDE4, CRC],
        _ => vec![],
    }
}
fn is_master(id: u64) -> bool { matches!(id, bs::ROOT | bs::PARENT | bs::SUB | bs::OTHER) }

/// all forests allowed under `parent` with exactly `budget` nodes in total (masters count 1 + children)
pub fn forests(parent: Option<u64>, budget: usize, rich: bool, out: &mut Vec<Vec<Node>>) {
    if budget == 0 { out.push(vec![]); return; }
    for id in children_of(parent) {
        // first node uses k of the budget, the rest of the sequence the remainder
        if is_master(id) {
            for k in 1..=budget {
                let mut inner = Vec::new();
                forests(Some(id), k - 1, rich, &mut inner);
                let mut rest = Vec::new();
                forests(parent, budget - k, rich, &mut rest);
                for i in &inner { for r in &rest {
                    let mut v = vec![Node::M { id, unknown: false, width: 0, ch: i.clone() }];
                    v.extend(r.iter().cloned());
                    out.push(v);
                } }
            }
        } else {
            let mut rest = Vec::new();
            forests(parent, budget - 1, rich, &mut rest);
            for t in leaf_variants(id, rich) { for r in &rest {
                let mut v = vec![Node::L { tag: t.clone(), width: 0 }];
                v.extend(r.iter().cloned());
                out.push(v);
            } }
        }
    }
}
fn with_width(nodes: &[Node], w: usize) -> Vec<Node> {
    nodes.iter().map(|n| match n {
        Node::M { id, unknown, ch, .. } => Node::M { id: *id, unknown: *unknown, width: w, ch: with_width(ch, w) },
        Node::L { tag, .. } => Node::L { tag: tag.clone(), width: w },
    }).collect()
}
fn children_small(parent: Option<u64>) -> Vec<u64> {
    use bs::*;
    match parent { None => vec![ROOT], Some(ROOT) => vec![UINT, PARENT], Some(PARENT) => vec![CHILD, SUB], Some(SUB) => vec![LEAF], _ => vec![] }
}
pub fn forests_small(parent: Option<u64>, budget: usize, out: &mut Vec<Vec<Node>>) {
    if budget == 0 { out.push(vec![]); return; }
    for id in children_small(parent) {
        if is_master(id) {
            for k in 1..=budget {
                let mut inner = Vec::new();
                forests_small(Some(id), k - 1, &mut inner);
                let mut rest = Vec::new();
                forests_small(parent, budget - k, &mut rest);
                for i in &inner { for r in &rest {
                    let mut v = vec![Node::M { id, unknown: false, width: 0, ch: i.clone() }];
                    v.extend(r.iter().cloned());
                    out.push(v);
                } }
            }
        } else {
            let mut rest = Vec::new();
            forests_small(parent, budget - 1, &mut rest);
            for t in leaf_variants(id, false) { for r in &rest {
                let mut v = vec![Node::L { tag: t.clone(), width: 0 }];
                v.extend(r.iter().cloned());
                out.push(v);
            } }
        }
    }
}
/// single-byte mutations of a document: every byte replaced by its neighbours and by 0x00 / 0x80 / 0xFF; the
/// single-run contract clauses (C03 mirror/tiling, C06 structure, C13 decision table, C05 totality, C17) must hold on each
fn check_mutations(table: &bs::Table, bytes: &[u8], rep: &mut Report, thorough: bool) {
    for i in 0..bytes.len() {
        let b = bytes[i];
        for v in [b.wrapping_add(1), b.wrapping_sub(1), 0x00, 0x80, 0xFF] {
            if v == b { continue; }
            let mut m = bytes.to_vec();
            m[i] = v;
            check_input(table, &m, rep, thorough, false);
            // the same under full tolerance and a small size limit (C13/C17 limit clause on mutated documents)
            let cfg = Cfg { max: Some(Some(5)), allow: 7, ..Cfg::strict() };
            let t = run(&m, &cfg);
            check_total(&m, &cfg, &t, rep);
            let over = t.items.iter().any(|(tag, off)| !matches!(tag, T::M(_, Master::End)) && matches!(rf::hdr_at(&m, *off), Hdr::Ok { size: Some(n), .. } if n as usize > 5));
            rep.clause("C13/C17: with a size limit M no successful item declares a size above M, whatever classes are tolerated", !over, || format!("input={} max=5 allow=7 -> {}", rf::hex(&m), show_trace(&t)));
        }
    }
}
fn count_masters(nodes: &[Node]) -> usize { nodes.iter().map(|n| match n { Node::M { ch, .. } => 1 + count_masters(ch), _ => 0 }).sum() }
/// set `unknown` on the masters selected by the bits of `mask` (pre-order numbering)
fn with_unknown(nodes: &[Node], mask: u32, next: &mut u32) -> Vec<Node> {
    nodes.iter().map(|n| match n {
        Node::M { id, width, ch, .. } => { let bit = *next; *next += 1; Node::M { id: *id, unknown: mask & (1 << bit) != 0, width: *width, ch: with_unknown(ch, mask, next) } }
        l => l.clone(),
    }).collect()
}
/// C07 excludes the inherently ambiguous case: a global element directly after an unknown-size master
/// (directly after = next element in the byte stream once that master's content is over), and an
/// unknown-size master whose end is not observable through a following element that ends it.
fn ambiguous(table: &bs::Table, nodes: &[Node], follower: Option<u64>) -> bool { ambiguous_in(table, nodes, follower, &[]) }
/// `enclosing`: the run of unknown-size masters directly enclosing `nodes` (outermost first); an unknown-size master
/// is observably closed by the following element f if f ends it directly or ends one of those enclosing masters
/// (C07: "or closes in that way an unknown-size master directly enclosing it").
fn ambiguous_in(table: &bs::Table, nodes: &[Node], follower: Option<u64>, enclosing: &[u64]) -> bool {
    for (i, n) in nodes.iter().enumerate() {
        // the element that follows node i in the byte stream: its next sibling, else the parent's follower
        let next_id = nodes.get(i + 1).map(|m| match m { Node::M { id, .. } => *id, Node::L { tag, .. } => tag.get_id() }).or(follower);
        if let Node::M { id, unknown, ch, .. } = n {
            if *unknown {
                if let Some(f) = next_id {
                    let closes = rf::ended_by(table, *id, f) || (nodes.get(i + 1).is_none() && enclosing.iter().any(|e| rf::ended_by(table, *e, f)));
                    if !closes { return true; }
                }
            }
            // what follows the last child of this master: if this master is known-size its byte count closes the children
            let (child_follower, child_enclosing): (Option<u64>, Vec<u64>) = if *unknown {
                let mut e = if nodes.get(i + 1).is_none() { enclosing.to_vec() } else { vec![] };
                e.push(*id);
                (next_id, e)
            } else { (None, vec![]) };
            if ambiguous_in(table, ch, child_follower, &child_enclosing) { return true; }
        }
    }
    false
}

// ---------------------------------------------------------------------------------------------
// contract predicates over one trace
// ---------------------------------------------------------------------------------------------
fn decode_ok(table: &bs::Table, tag: &T, payload: &[u8]) -> bool {
    match tag {
        T::U(_, v) => *v == rf::dec_u(payload),
        T::I(_, v) => *v == rf::dec_i(payload),
        T::F(_, v) => rf::dec_f(payload).map(|f| f.to_bits() == v.to_bits()).unwrap_or(false),
        T::S(_, v) => v.as_bytes() == payload,
        T::B(_, v) | T::Raw(_, v) => v.as_slice() == payload,
        T::M(..) => { let _ = table; false }
    }
}

/// C03 for an unbuffered run: mirror + tiling + End offsets.  Returns the offset where the next element
/// must start (the tiling cursor) and the open stack (id, start, data_start, size) at the end of the Ok prefix.
fn check_c03(table: &bs::Table, input: &[u8], tr: &Trace, rep: &mut Report, ctx: &dyn Fn() -> String) -> (usize, Vec<(u64, usize, usize, Option<u64>)>) {
    let mut next = 0usize;
    let mut stack: Vec<(u64, usize, usize, Option<u64>)> = Vec::new();
    let mut implied: Vec<u64> = Vec::new();
    let mut seen_nonglobal = false;
    for (tag, off) in &tr.items {
        if let T::M(id, Master::End) = tag {
            match stack.last() {
                Some(top) if top.0 == *id => { rep.clause("C03: a master's End item reports the offset of the master's start", *off == top.1, ctx); stack.pop(); }
                _ => {
                    let ok = implied.last() == Some(id);
                    rep.clause("C06: every End matches the most recent unmatched Start or an implied ancestor of the first element", ok, ctx);
                    if ok { implied.pop(); rep.clause("C03: the End of an implied ancestor reports offset 0", *off == 0, ctx); }
                }
            }
            continue;
        }
        rep.clause("C03: each non-End item starts exactly where the previous one's header (masters) or payload (elements) ends", *off == next, ctx);
        let h = rf::hdr_at(input, *off);
        let (hid, hl, size) = match h { Hdr::Ok { id, id_len, size, size_len } => (id, id_len + size_len, size), _ => { rep.clause("C03: each non-End item has a complete header at its reported offset", false, ctx); return (next, stack); } };
        rep.clause("C03: each non-End item has exactly the id found at its reported offset", hid == tag.get_id(), ctx);
        if !seen_nonglobal && rf::entry(table, hid).map(|e| e.1.iter().all(|p| matches!(p, PathPart::Id(_)))).unwrap_or(false) {
            seen_nonglobal = true;
            if stack.is_empty() { implied = rf::entry(table, hid).unwrap().1.iter().filter_map(|p| if let PathPart::Id(i) = p { Some(*i) } else { None }).collect(); }
        }
        match tag {
            T::M(id, Master::Start) => { stack.push((*id, *off, *off + hl, size)); next = *off + hl; }
            T::M(_, _) => { rep.clause("C03: unbuffered runs emit no Full items", false, ctx); }
            leaf => {
                match size {
                    Some(n) if *off + hl + n as usize <= input.len() => {
                        let p = &input[*off + hl..*off + hl + n as usize];
                        rep.clause("C03: the value is the documented decoding of the payload bytes that follow the header", decode_ok(table, leaf, p), ctx);
                        next = *off + hl + n as usize;
                    }
                    _ => rep.clause("C03: an emitted element has a known size and a complete payload in the input", false, ctx),
                }
            }
        }
    }
    (next, stack)
}

/// C06 (strict, unbuffered): hierarchy-valid, size-contained, Ends exactly at range exhaustion, EOF closing.
fn check_c06(table: &bs::Table, input: &[u8], tr: &Trace, rep: &mut Report, ctx: &dyn Fn() -> String) {
    // (id, data_end or None, implied)
    let mut stack: Vec<(u64, Option<usize>)> = Vec::new();
    let mut position_fixed = false;
    let mut cursor = 0usize; // end of the bytes consumed so far
    for (idx, (tag, off)) in tr.items.iter().enumerate() {
        match tag {
            T::M(id, Master::End) => {
                let ok = matches!(stack.last(), Some(t) if t.0 == *id);
                rep.clause("C06: every End matches the most recent unmatched Start or an implied ancestor of the first element", ok, ctx);
                if !ok { return; }
                let (_, end) = stack.pop().unwrap();
                if let Some(e) = end {
                    // a known-size master ends exactly when its byte range is exhausted — or at end of input
                    let at_eof = cursor >= input.len() && tr.ended && tr.items[idx..].iter().all(|(t, _)| matches!(t, T::M(_, Master::End)));
                    rep.clause("C06: a known-size master's End is emitted exactly when its byte range is exhausted (or at end of input)", cursor == e || at_eof, ctx);
                }
            }
            T::Raw(..) => rep.clause("C06/C13: in strict mode no successful item is a raw tag (every id is known to the specification)", false, ctx),
            other => {
                let id = other.get_id();
                // no open known-size master may already be exhausted when a new element starts
                let exhausted = stack.iter().any(|(_, e)| matches!(e, Some(e) if *e <= *off));
                rep.clause("C06: a known-size master's End is emitted exactly when its byte range is exhausted (or at end of input)", !exhausted, ctx);
                let (ty, path) = match rf::entry(table, id) { Some(e) => e, None => { rep.clause("C06/C13: in strict mode no successful item is a raw tag (every id is known to the specification)", false, ctx); return; } };
                // only an element whose declared path names every ancestor (no placeholder) can fix the position in the
                // document; until then the first elements are trusted (reading may start mid-document)
                let global = rf::is_global(table, id) || path.iter().any(|p| matches!(p, PathPart::Global(_)));
                if !position_fixed && !global {
                    position_fixed = true;
                    if stack.is_empty() {
                        // implied ancestors of a mid-document start
                        for p in path { if let PathPart::Id(i) = p { stack.push((*i, None)); } }
                    }
                }
                if position_fixed {
                    let chain: Vec<u64> = stack.iter().map(|s| s.0).collect();
                    rep.clause("C06/C11r: every emitted element appears under exactly the chain of open masters its declared path allows", rf::path_matches(path, &chain), ctx);
                }
                let (hl, size) = match rf::hdr_at(input, *off) { Hdr::Ok { id_len, size_len, size, .. } => (id_len + size_len, size), _ => return };
                let end = size.map(|n| *off + hl + n as usize);
                if let Some(e) = end {
                    let inside = stack.iter().all(|(_, me)| me.map(|me| e <= me).unwrap_or(true));
                    rep.clause("C06/C13: every element lies inside the byte range of each enclosing known-size master (strict mode: an overrun is reported, never emitted)", inside, ctx);
                }
                if ty == TagDataType::Master { stack.push((id, end)); cursor = *off + hl; } else { cursor = end.unwrap_or(*off + hl); }
            }
        }
    }
    if tr.ended && tr.err.is_none() {
        rep.clause("C06: when the input ends every open master has received its End, innermost first", stack.is_empty(), ctx);
    }
}

fn starts_at_root(table: &bs::Table, input: &[u8]) -> bool {
    match rf::hdr_at(input, 0) { Hdr::Ok { id, .. } => rf::entry(table, id).map(|e| e.1.is_empty()).unwrap_or(false), _ => false }
}

fn ok_tags(tr: &Trace) -> Vec<T> { tr.items.iter().map(|x| x.0.clone()).collect() }
fn same_items(a: &[(T, usize)], b: &[(T, usize)]) -> bool { a.len() == b.len() && a.iter().zip(b.iter()).all(|(x, y)| x.1 == y.1 && rf::tag_eq(&x.0, &y.0)) }
fn same_trace(a: &Trace, b: &Trace) -> bool { same_items(&a.items, &b.items) && a.err == b.err && a.panicked.is_some() == b.panicked.is_some() && a.ended == b.ended }

/// checks that apply to EVERY run: C05 totality, C17 memory
fn check_total(input: &[u8], cfg: &Cfg, tr: &Trace, rep: &mut Report) {
    let ctx = || format!("input={} {} -> {}", rf::hex(input), cfg.show(), show_trace(tr));
    rep.clause("C05: next() never panics", tr.panicked.is_none(), &ctx);
    rep.clause("C05: the number of successful items is bounded by a linear function of the input length", !tr.too_many, &ctx);
    if tr.ended { rep.clause("C05: after None with the source exhausted further calls keep returning None", tr.fused_ok, &ctx); }
    let m = match cfg.max { None => 4_000_000_000usize, Some(Some(m)) => m, Some(None) => usize::MAX };
    if cfg.buffered.is_empty() && m != usize::MAX {
        rep.clause("C17: the buffer never grows beyond max(size limit, initial capacity, a small header look-ahead)", tr.peak_buf <= m.max(cfg.cap).max(64), &ctx);
        rep.clause("C17: an element declaring a size above the limit is rejected before any allocation for its payload", !tr.alloc_before_reject, &ctx);
        if let Some(E::TooBig { size, .. }) = &tr.err { rep.clause("C13/C17: the size error is only raised for a declared size above the configured limit", *size > m, &ctx); }
    }
    // no Ok element may carry a declared size above the limit
}

// ---------------------------------------------------------------------------------------------
// units
// ---------------------------------------------------------------------------------------------
fn cfg_variants(len: usize, thorough: bool) -> Vec<Cfg> {
    let mut v = Vec::new();
    for cap in [0usize, 1, 3, 8, 16] {
        v.push(Cfg { cap, ..Cfg::strict() });
    }
    v.push(Cfg { chunk: vec![1], ..Cfg::strict() });
    v.push(Cfg { chunk: vec![2, 1, 3], cap: 5, ..Cfg::strict() });
    v.push(Cfg { chunk: vec![1], cap: 1, ..Cfg::strict() });
    if thorough {
        v.push(Cfg { chunk: vec![3, 1], cap: 17, ..Cfg::strict() });
        v.push(Cfg { chunk: vec![7], cap: 9, ..Cfg::strict() });
        v.push(Cfg { cap: len, ..Cfg::strict() });
        v.push(Cfg { cap: len + 1, ..Cfg::strict() });
    }
    v
}

/// everything that can be said about one input: C03/C05/C06/C13/C17 on single runs, C04 across capacities
/// and chunkings, C13 across tolerance masks, C08 across buffered sets.
fn check_input(table: &bs::Table, input: &[u8], rep: &mut Report, thorough: bool, deep: bool) {
    let strict = Cfg::strict();
    let base = run(input, &strict);
    check_total(input, &strict, &base, rep);
    rep.cases += 1;
    if !base.items.is_empty() { rep.nontrivial += 1; }
    {
        let ctx = || format!("input={} strict -> {}", rf::hex(input), show_trace(&base));
        check_c03(table, input, &base, rep, &ctx);
        check_c06(table, input, &base, rep, &ctx);
        check_c13_strict(table, input, &base, rep, &ctx);
    }
    if !deep { return; }
    // C04: capacity / chunking independence
    for cfg in cfg_variants(input.len(), thorough) {
        let t = run(input, &cfg);
        check_total(input, &cfg, &t, rep);
        rep.clause("C04: items, offsets and the first error (all fields) do not depend on buffer capacity or on how the source splits the bytes", same_trace(&t, &base),
                   || format!("input={} {} -> {}   BUT slice/default -> {}", rf::hex(input), cfg.show(), show_trace(&t), show_trace(&base)));
    }
    // C13: tolerance masks
    for allow in 1u8..8 {
        let cfg = Cfg { allow, ..Cfg::strict() };
        let t = run(input, &cfg);
        check_total(input, &cfg, &t, rep);
        let ctx = || format!("input={} allow={} -> {}   strict -> {}", rf::hex(input), allow, show_trace(&t), show_trace(&base));
        check_c03(table, input, &t, rep, &ctx);
        if allow & 1 != 0 { rep.clause("C13: tolerating unknown ids makes the invalid-id error impossible", !matches!(t.err, Some(E::BadId { .. })), &ctx); }
        if allow & 2 != 0 { rep.clause("C13: tolerating hierarchy problems makes the hierarchy error impossible", !matches!(t.err, Some(E::Hier { .. })), &ctx); }
        if allow & 4 != 0 { rep.clause("C13: tolerating oversized children makes the oversized-child error impossible", !matches!(t.err, Some(E::Oversize { .. })), &ctx); }
        if allow & 1 == 0 { rep.clause("C13: raw tags are only emitted when unknown ids are tolerated", !t.items.iter().any(|(x, _)| matches!(x, T::Raw(..))), &ctx); }
        if starts_at_root(table, input) {
            let pre = base.items.len() <= t.items.len() && same_items(&base.items, &t.items[..base.items.len()]);
            rep.clause("C13: for inputs starting at a root element the successful items of the strict parse are a prefix of those of any more tolerant parse", pre, &ctx);
        }
    }
    // C13/C17: size limits
    for m in [0usize, 1, 5] {
        for allow in [0u8, 7, 1, 2, 4, 6] {
            let cfg = Cfg { max: Some(Some(m)), allow, ..Cfg::strict() };
            let t = run(input, &cfg);
            check_total(input, &cfg, &t, rep);
            let ctx = || format!("input={} max={} allow={} -> {}", rf::hex(input), m, allow, show_trace(&t));
            let over = t.items.iter().any(|(tag, off)| !matches!(tag, T::M(_, Master::End)) && matches!(rf::hdr_at(input, *off), Hdr::Ok { size: Some(n), .. } if n as usize > m));
            rep.clause("C13/C17: with a size limit M no successful item declares a size above M, whatever classes are tolerated", !over, &ctx);
        }
    }
    // C04 with a size limit configured: the limit bounds payload allocations, never the header look-ahead, so a small limit together
    // with a small capacity must not change the result
    for m in [1usize, 8] {
        let lim = Cfg { max: Some(Some(m)), ..Cfg::strict() };
        let want = run(input, &lim);
        for (cap, chunk) in [(0usize, vec![]), (3, vec![1usize]), (11, vec![])] {
            let cfg = Cfg { max: Some(Some(m)), cap, chunk, ..Cfg::strict() };
            let t = run(input, &cfg);
            check_total(input, &cfg, &t, rep);
            rep.clause("C04: items, offsets and the first error (all fields) do not depend on buffer capacity or on how the source splits the bytes", same_trace(&t, &want),
                       || format!("input={} {} -> {}   BUT slice/default with the same limit -> {}", rf::hex(input), cfg.show(), show_trace(&t), show_trace(&want)));
        }
    }
    {
        let cfg = Cfg { max: Some(None), ..Cfg::strict() };
        let t = run(input, &cfg);
        let ctx = || format!("input={} max=None -> {}", rf::hex(input), show_trace(&t));
        rep.clause("C13: removing the size limit makes the size error impossible", !matches!(t.err, Some(E::TooBig { .. })), &ctx);
    }
    // C08: buffered masters = flat stream rolled up
    let masters = bs::master_ids(table);
    let sets: Vec<Vec<u64>> = if thorough { (1u32..(1 << masters.len())).map(|m| masters.iter().enumerate().filter(|(i, _)| m & (1 << i) != 0).map(|(_, x)| *x).collect()).collect() }
                              else { let mut s: Vec<Vec<u64>> = masters.iter().map(|m| vec![*m]).collect(); s.push(masters.clone()); s.push(vec![bs::ROOT, bs::SUB]); s.push(vec![bs::PARENT, bs::SUB]); s };
    for set in sets {
        let cfg = Cfg { buffered: set.clone(), ..Cfg::strict() };
        let t = run(input, &cfg);
        check_total(input, &cfg, &t, rep);
        let ctx = || format!("input={} buffered={:x?} -> {}   flat -> {}", rf::hex(input), set, show_trace(&t), show_trace(&base));
        let mut flat = Vec::new();
        for (x, _) in &t.items { rf::flatten(x, &mut flat); }
        let want = ok_tags(&base);
        let prefix = flat.len() <= want.len() && flat.iter().zip(want.iter()).all(|(a, b)| rf::tag_eq(a, b));
        rep.clause("C08: replacing each Full item by Start, children, End yields a prefix of the unbuffered sequence", prefix, &ctx);
        if base.err.is_none() && base.panicked.is_none() {
            rep.clause("C08: if the unbuffered parse ends cleanly so does the buffered one, with the complete sequence", t.err.is_none() && flat.len() == want.len(), &ctx);
        } else {
            rep.clause("C08: if the unbuffered parse ends in an error the buffered parse ends in an error", t.err.is_some() || t.panicked.is_some(), &ctx);
        }
        let only_buffered_full = t.items.iter().all(|(x, _)| match x { T::M(id, Master::Full(_)) => set.contains(id), T::M(id, Master::Start) => !set.contains(id), _ => true });
        rep.clause("C08: exactly the requested masters are emitted as Full items", only_buffered_full, &ctx);
        // offsets: Full = the master's Start offset in the flat run; everything outside buffered masters unchanged
        let mut fi = 0usize; let mut ok_off = true;
        for (x, off) in &t.items {
            let mut fl = Vec::new(); rf::flatten(x, &mut fl);
            if fi < base.items.len() && base.items[fi].1 != *off { ok_off = false; }
            fi += fl.len();
        }
        rep.clause("C03/C08: a Full item reports the offset of the master's start; items outside buffered masters keep their offsets", ok_off, &ctx);
        // the same with end-of-stream closing disabled (a buffered master whose End never comes must not hang)
        let cfg2 = Cfg { buffered: set.clone(), eof_close: false, ..Cfg::strict() };
        let t2 = run(input, &cfg2);
        check_total(input, &cfg2, &t2, rep);
        let mut flat2 = Vec::new();
        for (x, _) in &t2.items { rf::flatten(x, &mut flat2); }
        let prefix2 = flat2.len() <= want.len() && flat2.iter().zip(want.iter()).all(|(a, b)| rf::tag_eq(a, b));
        rep.clause("C08: with end-of-stream closing disabled, replacing each Full item by Start, children, End still yields a prefix of the unbuffered sequence", prefix2, || format!("input={} buffered={:x?} eof_close=false -> {}   flat -> {}", rf::hex(input), set, show_trace(&t2), show_trace(&base)));
    }
}

/// C13 strict-mode error kinds: the error position is where the offending element starts (the tiling cursor)
fn check_c13_strict(table: &bs::Table, input: &[u8], tr: &Trace, rep: &mut Report, ctx: &dyn Fn() -> String) {
    let mut quiet = Report::new("q");
    let (next, stack) = check_c03(table, input, tr, &mut quiet, ctx);
    if let Some(e) = &tr.err {
        let h = rf::hdr_at(input, next);
        match e {
            E::BadId { pos, id } => {
                rep.clause("C13: an id outside the specification is reported as invalid-id at the offending element's offset", *pos == next && matches!(&h, Hdr::Ok { id: hid, .. } if hid == id && rf::entry(table, *hid).is_none()) || matches!(h, Hdr::BadId) && *pos == next, ctx);
            }
            E::Hier { id, .. } => {
                rep.clause("C13: an element outside its allowed parents is reported as hierarchy error carrying the offending id", matches!(&h, Hdr::Ok { id: hid, .. } if hid == id), ctx);
            }
            E::Oversize { pos, id, size } => {
                let overrun = match &h { Hdr::Ok { id: hid, id_len, size_len, size: hs } => { let n = hs.unwrap_or(0); hid == id && n as usize == *size && stack.iter().any(|(_, _, ds, sz)| sz.map(|s| next + id_len + size_len + n as usize > ds + s as usize).unwrap_or(false)) }, _ => false };
                rep.clause("C13: a child overrunning a known-size ancestor is reported as oversized-child at the offending element's offset, and only then", *pos == next && overrun, ctx);
            }
            E::TooBig { pos, id, size } => {
                rep.clause("C13: a declared size above the limit is reported as size error at the offending element's offset", *pos == next && matches!(&h, Hdr::Ok { id: hid, size: Some(n), .. } if hid == id && *n as usize == *size), ctx);
            }
            E::Eof { start, id, size, .. } => {
                rep.clause("C12: an unexpected-EOF error reports the offset of the incomplete tag", *start == next, ctx);
                match &h {
                    Hdr::Incomplete { id: hid } => rep.clause("C12: the EOF error carries the id exactly when the id bytes are complete, and no size while the header is incomplete", *id == hid.map(|x| x.0) && size.is_none(), ctx),
                    Hdr::Ok { id: hid, size: hs, .. } => rep.clause("C12: the EOF error carries id and size when the header is complete", *id == Some(*hid) && *size == hs.map(|n| n as usize), ctx),
                    _ => rep.clause("C12: it never reports EOF where the bytes present are already invalid", false, ctx),
                }
            }
            _ => {}
        }
    }
}

pub fn alphabet() -> Vec<u8> { vec![0x81, 0x82, 0x87, 0x88, 0x8B, 0xEC, 0x42, 0x86, 0x80, 0x83, 0xFF, 0x40, 0x01, 0x00, 0x05, 0x21, 0x03] } // 0x21 0x03 0x01 = the 3-byte id Wide3

/// Unit 1: all byte strings of length <= L over the header alphabet (enumeration split over worker threads by first symbol).
pub fn unit_bytes(l: usize, thorough: bool) -> Report {
    let table = bs::doc_table();
    bs::set_table(table.clone());
    let mut rep = Report::new("bx_iter_bytes");
    let a = alphabet();
    let deep_l = l.min(if thorough { 5 } else { 4 });
    rep.notes.push(format!("BOUNDED: every byte string of length <= {} over the {}-symbol header alphabet {}; deep checks (C04 capacities/chunkings, C13 masks, C08 buffered sets) on every string of length <= {}", l, a.len(), rf::hex(&a), deep_l));
    check_input(&table, &[], &mut rep, thorough, true);
    let mut handles = Vec::new();
    for first in 0..a.len() {
        let a = a.clone();
        handles.push(std::thread::Builder::new().stack_size(64 << 20).spawn(move || {
            let table = bs::doc_table();
            bs::set_table(table.clone());
            let mut rep = Report::new("worker");
            for len in 1..=l {
                let mut idx = vec![0usize; len];
                idx[0] = first;
                loop {
                    let input: Vec<u8> = idx.iter().map(|i| a[*i]).collect();
                    check_input(&table, &input, &mut rep, thorough, len <= deep_l);
                    if rep.samples.len() < 1 && rep.cases % 50021 == 7 { rep.samples.push(format!("{} -> {}", rf::hex(&input), show_trace(&run(&input, &Cfg::strict())))); }
                    // next string with the same first symbol
                    let mut k = len;
                    let mut done = true;
                    while k > 1 { k -= 1; idx[k] += 1; if idx[k] < a.len() { done = false; break; } idx[k] = 0; }
                    if done { break; }
                }
            }
            rep
        }).unwrap());
    }
    for h in handles { match h.join() { Ok(r) => rep.merge(r), Err(_) => rep.clause("C05: next() never panics", false, || "a worker thread of the enumeration died".to_string()) } }
    rep
}

/// Unit 2: documents (tag trees through the reference encoder): C01r, C03, C04, C06, C07, C08, C12, C13, C14, C02.
/// The forests are split over worker threads.
pub fn unit_docs(budget: usize, thorough: bool) -> Report {
    let table = bs::doc_table();
    bs::set_table(table.clone());
    let mut rep = Report::new("bx_iter_docs");
    let mut docs: Vec<Vec<Node>> = Vec::new();
    for b in 1..=budget { forests(None, b, thorough, &mut docs); }
    rep.notes.push(format!("BOUNDED: every specification-conformant forest with <= {} nodes over the document specification ({} forests), every subset of its masters encoded with unknown size, every truncation point, junk insertion at every tag boundary, single-byte mutations", budget, docs.len()));
    // deeper forests over a small alphabet (Root > Parent > Sub with one leaf type per level): recovery, truncation,
    // unknown-size closing and mutations need depth and trailing siblings more than they need element variety
    let mut deep: Vec<Vec<Node>> = Vec::new();
    for b in (budget + 1)..=(budget + 2) { forests_small(None, b, &mut deep); }
    rep.notes.push(format!("BOUNDED: plus every forest with {}..={} nodes over the small alphabet Root/UInt/Parent/Child/Sub/Leaf ({} forests)", budget + 1, budget + 2, deep.len()));
    if let Some(d) = docs.get(docs.len() / 2) { let (b, f) = encode_doc(d); rep.samples.push(format!("{} = {}", f.iter().map(|(t, _)| rf::show(t)).collect::<Vec<_>>().join(","), rf::hex(&b))); }
    let workers = 15usize;
    let mut handles = Vec::new();
    let docs = std::sync::Arc::new(docs);
    let deep = std::sync::Arc::new(deep);
    for w in 0..workers {
        let docs = docs.clone();
        let deep = deep.clone();
        handles.push(std::thread::Builder::new().stack_size(64 << 20).spawn(move || {
            let table = bs::doc_table();
            bs::set_table(table.clone());
            let mut rep = Report::new("worker");
            let mut i = w;
            while i < docs.len() { doc_work(&table, &docs[i], &mut rep, thorough); i += workers; }
            let mut i = w;
            while i < deep.len() { deep_work(&table, &deep[i], &mut rep, thorough); i += workers; }
            rep
        }).unwrap());
    }
    for h in handles { match h.join() { Ok(r) => rep.merge(r), Err(_) => rep.clause("C05: next() never panics", false, || "a worker thread of the enumeration died".to_string()) } }
    rep
}

/// C01 does not fix the reader's buffer capacity or the way its source delivers bytes: the round trip must hold for small
/// buffers and chunked sources too (headers of 9..16 bytes against the look-ahead, payloads crossing refills)
fn c01_caps(bytes: &[u8], flat: &Vec<(T, usize)>, what: &str, rep: &mut Report) {
    for (cap, chunk) in [(0usize, vec![]), (9, vec![]), (13, vec![]), (65536, vec![1usize]), (65536, vec![8, 3]), (16, vec![9])] {
        let mut cfg = Cfg::strict(); cfg.cap = cap; cfg.chunk = chunk;
        let t = run(bytes, &cfg);
        rep.clause("C01r/C04: a specification-conformant document reads back as exactly its tags and offsets whatever the buffer capacity and however the source splits the bytes", t.err.is_none() && t.panicked.is_none() && same_items(&t.items, flat), || format!("{} bytes={} {} -> {}", what, rf::hex(bytes), cfg.show(), show_trace(&t)));
    }
}

fn doc_work(table: &bs::Table, d: &Vec<Node>, rep: &mut Report, thorough: bool) {
    let table = table.clone();
    let mut rep = rep;
    {
        let (bytes, flat) = encode_doc(d);
        let ctxd = || format!("doc={} bytes={}", flat.iter().map(|(t, _)| rf::show(t)).collect::<Vec<_>>().join(","), rf::hex(&bytes));
        // C01 (reader half): a conformant document reads back as exactly its tags and offsets, no error
        let tr = run(&bytes, &Cfg::strict());
        rep.clause("C01r/C03: a specification-conformant document reads (strict) as exactly its tags, in order, with their offsets, and no error", tr.err.is_none() && tr.panicked.is_none() && same_items(&tr.items, &flat), || format!("{} -> {}", ctxd(), show_trace(&tr)));
        check_input(&table, &bytes, &mut *rep, thorough, true);
        c01_caps(&bytes, &flat, "known-size", &mut *rep);
        // C07: every subset of masters with unknown size reads as the same tag sequence
        let m = count_masters(d);
        if m > 0 && m <= 5 {
            for mask in 1u32..(1 << m) {
                let mut c = 0;
                let du = with_unknown(d, mask, &mut c);
                if ambiguous(&table, &du, None) { continue; }
                let (ub, uflat) = encode_doc(&du);
                let t = run(&ub, &Cfg::strict());
                let same = t.err.is_none() && t.items.len() == flat.len() && t.items.iter().zip(flat.iter()).all(|(a, b)| rf::tag_eq(&a.0, &b.0));
                rep.clause("C07: a document with any subset of masters encoded with unknown size reads as the same tag sequence as the all-known-size encoding", same, || format!("{} unknown-mask={:b} bytes={} -> {}", ctxd(), mask, rf::hex(&ub), show_trace(&t)));
                let same_off = same && t.items.iter().zip(uflat.iter()).all(|(a, b)| a.1 == b.1);
                rep.clause("C03/C07: offsets of an unknown-size encoding are those of its own bytes", same_off || !same, || format!("{} unknown-mask={:b} -> {}", ctxd(), mask, show_trace(&t)));
                // headers longer than 8 bytes (8-byte unknown-size fields) under every capacity / chunking / mask
                check_input(&table, &ub, &mut *rep, thorough, true);
                if same { c01_caps(&ub, &uflat, "unknown-size", &mut *rep); }
                if thorough || mask == (1 << m) - 1 { check_trunc(&table, &ub, &uflat, &mut *rep); }
                // mixed encodings (known-size masters above / below unknown-size ones): size fields damaged so that a descendant
                // overruns a known-size ancestor THROUGH an unknown-size master (C13/C06), and junk inside a known-size master
                // that is nested in an unknown-size one (C14: every enclosing known-size master grows by the skipped bytes)
                if same && mask != (1 << m) - 1 {
                    check_mutations(&table, &ub, &mut *rep, false);
                    check_recover(&table, &ub, &uflat, &mut *rep, thorough);
                }
                check_c02(&table, &ub, &t, &mut *rep);
            }
        }
        check_trunc(&table, &bytes, &flat, &mut *rep);
        // the same forest with every size field two bytes wide (multi-byte size fields: cuts inside them, wider headers)
        {
            let dw = with_width(d, 2);
            let (wb, wflat) = encode_doc(&dw);
            let t = run(&wb, &Cfg::strict());
            rep.clause("C01r/C03: a specification-conformant document reads (strict) as exactly its tags, in order, with their offsets, and no error", t.err.is_none() && t.panicked.is_none() && same_items(&t.items, &wflat), || format!("{} width2-bytes={} -> {}", ctxd(), rf::hex(&wb), show_trace(&t)));
            check_input(&table, &wb, &mut *rep, thorough, false);
            check_trunc(&table, &wb, &wflat, &mut *rep);
        }
        // every size field eight bytes wide (headers of up to 12 bytes against the 16-byte look-ahead)
        {
            let dw = with_width(d, 8);
            let (wb, wflat) = encode_doc(&dw);
            let t = run(&wb, &Cfg::strict());
            rep.clause("C01r/C03: a specification-conformant document reads (strict) as exactly its tags, in order, with their offsets, and no error", t.err.is_none() && t.panicked.is_none() && same_items(&t.items, &wflat), || format!("{} width8-bytes={} -> {}", ctxd(), rf::hex(&wb), show_trace(&t)));
            check_input(&table, &wb, &mut *rep, thorough, thorough);
            c01_caps(&wb, &wflat, "width-8", &mut *rep);
            check_trunc(&table, &wb, &wflat, &mut *rep);
        }
        // every master of unknown size with the one-byte marker 0xFF
        {
            let m = count_masters(d);
            if m > 0 && m <= 5 {
                let mut c = 0;
                let du = with_width(&with_unknown(d, (1 << m) - 1, &mut c), 1);
                if !ambiguous(&table, &du, None) {
                    let (ub, _) = encode_doc(&du);
                    let t = run(&ub, &Cfg::strict());
                    let same = t.err.is_none() && t.items.len() == flat.len() && t.items.iter().zip(flat.iter()).all(|(a, b)| rf::tag_eq(&a.0, &b.0));
                    rep.clause("C07: a document with any subset of masters encoded with unknown size reads as the same tag sequence as the all-known-size encoding", same, || format!("{} one-byte unknown markers bytes={} -> {}", ctxd(), rf::hex(&ub), show_trace(&t)));
                    check_input(&table, &ub, &mut *rep, thorough, false);
                }
            }
        }
        check_recover(&table, &bytes, &flat, &mut *rep, thorough);
        check_mutations(&table, &bytes, &mut *rep, thorough);
        check_c02(&table, &bytes, &tr, &mut *rep);
        check_pauses(&table, &bytes, &flat, &tr, &mut *rep);
        }
}

fn deep_work(table: &bs::Table, d: &Vec<Node>, rep: &mut Report, thorough: bool) {
    let table = table.clone();
    let mut rep = rep;
    {
        let (bytes, flat) = encode_doc(d);
        let tr = run(&bytes, &Cfg::strict());
        rep.cases += 1; rep.nontrivial += 1;
        rep.clause("C01r/C03: a specification-conformant document reads (strict) as exactly its tags, in order, with their offsets, and no error", tr.err.is_none() && tr.panicked.is_none() && same_items(&tr.items, &flat), || format!("bytes={} -> {}", rf::hex(&bytes), show_trace(&tr)));
        check_recover(&table, &bytes, &flat, &mut *rep, thorough);
        check_trunc(&table, &bytes, &flat, &mut *rep);
        check_mutations(&table, &bytes, &mut *rep, false);
        let m = count_masters(d);
        if m > 0 && m <= 6 {
            for mask in 1u32..(1 << m) {
                let mut c = 0;
                let du = with_unknown(d, mask, &mut c);
                if ambiguous(&table, &du, None) { continue; }
                let (ub, _) = encode_doc(&du);
                let t = run(&ub, &Cfg::strict());
                let same = t.err.is_none() && t.items.len() == flat.len() && t.items.iter().zip(flat.iter()).all(|(a, b)| rf::tag_eq(&a.0, &b.0));
                rep.clause("C07: a document with any subset of masters encoded with unknown size reads as the same tag sequence as the all-known-size encoding", same, || format!("bytes={} unknown-mask={:b} -> {}", rf::hex(&ub), mask, show_trace(&t)));
                check_c02(&table, &ub, &t, &mut *rep);
                check_mutations(&table, &ub, &mut *rep, false);
            }
        }
        }
}

fn extent(bytes: &[u8], tag: &T, off: usize) -> Option<(usize, bool)> {
    // (end of the bytes the iterator consumes for this item, known-size?)
    match rf::hdr_at(bytes, off) {
        Hdr::Ok { id_len, size_len, size, .. } => {
            let hl = id_len + size_len;
            if matches!(tag, T::M(..)) { Some((off + hl, size.is_some())) } else { Some((off + hl + size.unwrap_or(0) as usize, true)) }
        }
        _ => None,
    }
}

/// The items a strict parse of bytes[..cut] must emit (C12), the tiling cursor after them, and whether the cut is on a tag boundary.
fn expected_prefix(bytes: &[u8], flat: &[(T, usize)], cut: usize) -> (Vec<(T, usize)>, usize, bool) {
    let mut expect: Vec<(T, usize)> = Vec::new();
    let mut open: Vec<(u64, usize, bool)> = Vec::new();
    let mut cursor = 0usize;
    let mut i = 0usize;
    'outer: while i < flat.len() {
        let (tag, off) = &flat[i];
        if let T::M(_, Master::End) = tag {
            // run of consecutive Ends
            let mut j = i;
            while j < flat.len() && matches!(flat[j].0, T::M(_, Master::End)) { j += 1; }
            // Ends up to (and including) the last known-size master of the run are forced by byte-range exhaustion
            let mut last_known: Option<usize> = None;
            for k in i..j { let depth_from_top = k - i; if open[open.len() - 1 - depth_from_top].2 { last_known = Some(k); } }
            let forced_end = last_known.map(|k| k + 1).unwrap_or(i);
            for k in i..forced_end { expect.push(flat[k].clone()); open.pop(); }
            // the remaining Ends of the run belong to unknown-size masters: visible only through a complete following element
            if forced_end < j {
                let next_complete = match flat.get(j) { Some((t2, o2)) => extent(bytes, t2, *o2).map(|(e, _)| e <= cut).unwrap_or(false), None => false };
                if next_complete { for k in forced_end..j { expect.push(flat[k].clone()); open.pop(); } } else { break 'outer; }
            }
            i = j;
            continue;
        }
        match extent(bytes, tag, *off) {
            Some((e, known)) if e <= cut => {
                expect.push((tag.clone(), *off));
                cursor = e;
                if matches!(tag, T::M(..)) { open.push((tag.get_id(), *off, known)); }
                i += 1;
            }
            _ => break,
        }
    }
    let boundary = cursor == cut;
    if boundary { for (id, off, _) in open.iter().rev() { expect.push((T::M(*id, Master::End), *off)); } }
    (expect, cursor, boundary)
}

/// C12: every cut position of a valid document
fn check_trunc(table: &bs::Table, bytes: &[u8], flat: &[(T, usize)], rep: &mut Report) {
    let _ = table;
    for cut in 0..bytes.len() {
        let input = &bytes[..cut];
        let (expect, cursor, boundary) = expected_prefix(bytes, flat, cut);
        for cfg in [Cfg::strict(), Cfg { cap: 3, chunk: vec![2], ..Cfg::strict() }] {
            let t = run(input, &cfg);
            check_total(input, &cfg, &t, rep);
            let ctx = || format!("doc-bytes={} cut={} {} -> {}", rf::hex(bytes), cut, cfg.show(), show_trace(&t));
            rep.clause("C12: a merely truncated document is never reported as corrupted", !matches!(t.err, Some(E::BadId { .. }) | Some(E::BadData { .. }) | Some(E::Hier { .. }) | Some(E::Oversize { .. }) | Some(E::TooBig { .. }) | Some(E::TagData { .. })), &ctx);
            rep.clause("C12: the strict iterator emits exactly the tags completely contained in the prefix (then the Ends of open masters if the cut is on a tag boundary)", same_items(&t.items, &expect), || format!("{} want=[{}]", ctx(), show_items(&expect)));
            if boundary {
                rep.clause("C12: a cut on a tag boundary ends normally (no error)", t.err.is_none() && t.ended, &ctx);
            } else {
                let h = rf::hdr_at(input, cursor);
                let ok = match (&t.err, &h) {
                    (Some(E::Eof { start, id, size, partial }), Hdr::Incomplete { id: hid }) => *start == cursor && *id == hid.map(|x| x.0) && size.is_none() && partial.is_none(),
                    (Some(E::Eof { start, id, size, partial }), Hdr::Ok { id: hid, id_len, size_len, size: hs }) => *start == cursor && *id == Some(*hid) && *size == hs.map(|n| n as usize) && partial.as_deref() == Some(&input[cursor + id_len + size_len..]),
                    _ => false,
                };
                rep.clause("C12: a cut inside a tag yields unexpected-EOF with the tag's start offset, the id iff the id bytes are complete, the size iff the header is complete, and exactly the available payload bytes", ok, &ctx);
            }
        }
    }
}

/// known-size masters (data_end) whose content contains the boundary `at`
fn enclosing_known_ends(flat: &[(T, usize)], bytes: &[u8], at: usize) -> Vec<usize> {
    let mut v = Vec::new();
    for (t, off) in flat {
        if let T::M(_, Master::Start) = t {
            if let Hdr::Ok { id_len, size_len, size: Some(s), .. } = rf::hdr_at(bytes, *off) {
                let ds = *off + id_len + size_len;
                if ds <= at && at < ds + s as usize { v.push(ds + s as usize); }
            }
        }
    }
    v
}

/// C14: junk that cannot begin any valid tag, inserted at a tag boundary of a valid known-size document
fn check_recover(table: &bs::Table, bytes: &[u8], flat: &[(T, usize)], rep: &mut Report, thorough: bool) {
    let _ = table;
    let junks: Vec<Vec<u8>> = if thorough { vec![vec![0x00], vec![0x00, 0x00, 0x00], vec![0x7A, 0x00], vec![0x11], vec![0x00; 9]] } else { vec![vec![0x00], vec![0x7A, 0x00, 0x11], vec![0x11, 0x00, 0x00, 0x00, 0x00]] };   // the last one is longer than any leaf element: the next valid tag then starts beyond the declared end of its master
    let starts: Vec<(T, usize)> = flat.iter().filter(|(t, _)| !matches!(t, T::M(_, Master::End))).cloned().collect();
    for (ftag, at) in &starts {
        let at = *at;
        for junk in &junks {
            let mut input = bytes[..at].to_vec();
            input.extend_from_slice(junk);
            input.extend_from_slice(&bytes[at..]);
            let ctx = |s: String| format!("doc-bytes={} junk={} at={} {}", rf::hex(bytes), rf::hex(junk), at, s);
            // precondition of the success clause: the following tag still fits inside every enclosing known-size master after the shift
            let whole = match rf::hdr_at(bytes, at) { Hdr::Ok { id_len, size_len, size, .. } => id_len + size_len + size.unwrap_or(0) as usize, _ => continue };
            let fits = enclosing_known_ends(flat, bytes, at).iter().all(|e| at + junk.len() + whole <= *e);
            let _ = ftag;
          for rcfg in [Cfg::strict(), Cfg { allow: 4, ..Cfg::strict() }, Cfg { allow: 6, cap: 1, chunk: vec![2], ..Cfg::strict() }] {
            // tolerating oversized children / hierarchy problems, a tiny buffer and short reads must not change recovery
            let ctx = |s: String| format!("doc-bytes={} junk={} at={} {} {}", rf::hex(bytes), rf::hex(junk), at, rcfg.show(), s);
            let mut it = make(&input, &rcfg);
            let mut all: Vec<(T, usize)> = Vec::new();
            let mut errs = 0usize;
            let mut recovered = false;
            let mut bad = None;
            let mut resumed_at = None;
            for _ in 0..(4 * input.len() + 24) {
                let r = std::panic::catch_unwind(std::panic::AssertUnwindSafe(|| it.next()));
                match r {
                    Err(_) => { bad = Some("panic in next()"); break; }
                    Ok(None) => break,
                    Ok(Some(Ok(t))) => { let o = it.last_emitted_tag_offset(); all.push((t, o)); }
                    Ok(Some(Err(_))) => {
                        errs += 1;
                        if recovered { break; }
                        let p0 = it.current_offset();
                        let rr = std::panic::catch_unwind(std::panic::AssertUnwindSafe(|| it.try_recover()));
                        match rr {
                            Err(_) => { bad = Some("panic in try_recover()"); break; }
                            Ok(Ok(())) => { recovered = true; resumed_at = Some(it.current_offset()); rep.clause("C14: try_recover never moves backwards", it.current_offset() >= p0, || ctx(String::new())); }
                            Ok(Err(e)) => { rep.clause("C14: try_recover fails only by reporting end of input or a source I/O error", matches!(conv(&e), E::Eof { .. } | E::Read), || ctx(format!("{:?}", e))); break; }
                        }
                    }
                }
            }
            rep.clause("C05/C14: next() and try_recover() never panic", bad.is_none(), || ctx(bad.unwrap_or("").to_string()));
            if fits && bad.is_none() {
                rep.clause("C14: exactly one error is reported and try_recover succeeds", errs == 1 && recovered, || ctx(format!("errs={} recovered={} got=[{}]", errs, recovered, show_items(&all))));
                rep.clause("C14: recovery resumes at the first tag after the junk", resumed_at == Some(at + junk.len()), || ctx(format!("resumed at {:?}", resumed_at)));
                // tags before the junk unchanged; all remaining tags exactly as in the undamaged document (offsets at/after the junk shifted by its length)
                let same = all.len() == flat.len() && all.iter().zip(flat.iter()).all(|(a, b)| rf::tag_eq(&a.0, &b.0) && a.1 == if b.1 >= at { b.1 + junk.len() } else { b.1 });
                rep.clause("C14/C03: the tags before the junk are emitted unchanged and all remaining tags exactly as in the undamaged document (offsets at/after the junk shifted by its length, End offsets = the master's start)", same, || ctx(format!("got=[{}] want=[{}]", show_items(&all), show_items(flat))));
            }
          }
        }
    }
}

/// C02: read -> write -> read is a fixpoint
fn check_c02(table: &bs::Table, bytes: &[u8], tr: &Trace, rep: &mut Report) {
    if tr.err.is_some() || tr.panicked.is_some() || !starts_at_root(table, bytes) { return; }
    let mut w = crate::TagWriter::new(Vec::new());
    let mut ok = true;
    let mut why = String::new();
    for (t, _) in &tr.items {
        if let Err(e) = w.write(t) { ok = false; why = format!("writer rejected {}: {:?}", rf::show(t), e); break; }
    }
    rep.clause("C02: writing the tags the strict iterator emitted back through the writer succeeds", ok, || format!("input={} {}", rf::hex(bytes), why));
    if !ok { return; }
    let out = match w.into_inner() { Ok(o) => o, Err(_) => { rep.clause("C02: writing the tags the strict iterator emitted back through the writer succeeds", false, || format!("input={} into_inner failed", rf::hex(bytes))); return; } };
    let t2 = run(&out, &Cfg::strict());
    let same = t2.err.is_none() && t2.items.len() == tr.items.len() && t2.items.iter().zip(tr.items.iter()).all(|(a, b)| rf::tag_eq(&a.0, &b.0));
    rep.clause("C02: reading the re-written output yields the identical tag sequence", same, || format!("input={} first=[{}] rewritten={} second={}", rf::hex(bytes), show_items(&tr.items), rf::hex(&out), show_trace(&t2)));
}

/// C04: temporary end-of-file at tag boundaries with EOF closing disabled
fn check_pauses(table: &bs::Table, bytes: &[u8], flat: &[(T, usize)], base: &Trace, rep: &mut Report) {
    let _ = table;
    let bounds: Vec<usize> = flat.iter().filter(|(t, _)| !matches!(t, T::M(_, Master::End))).map(|x| x.1).filter(|o| *o > 0).collect();
    if bounds.is_empty() { return; }
    let noclose = run(bytes, &Cfg { eof_close: false, ..Cfg::strict() });
    // minus only the closing Ends that disabling end-of-stream closing suppresses
    let k = noclose.items.len();
    rep.clause("C04: disabling end-of-stream closing only suppresses the closing Ends", noclose.err == base.err && k <= base.items.len() && same_items(&noclose.items, &base.items[..k]) && base.items[k..].iter().all(|(t, _)| matches!(t, T::M(_, Master::End))),
               || format!("input={} noclose -> {}   default -> {}", rf::hex(bytes), show_trace(&noclose), show_trace(base)));
    for sel in [bounds.clone(), vec![bounds[0]], vec![*bounds.last().unwrap()]] {
        for (cap, chunk) in [(65536usize, vec![]), (4usize, vec![3usize])] {
            let cfg = Cfg { eof_close: false, pauses: sel.clone(), cap, chunk: chunk.clone(), ..Cfg::strict() };
            let t = run(bytes, &cfg);
            check_total(bytes, &cfg, &t, rep);
            rep.clause("C04: temporary end-of-file at tag boundaries (EOF closing disabled) does not change items, offsets or the first error", same_trace(&t, &noclose), || format!("input={} {} -> {}   without pauses -> {}", rf::hex(bytes), cfg.show(), show_trace(&t), show_trace(&noclose)));
        }
    }
}

/// C17/C13: headers declaring sizes from tiny to 2^56-2 in every size-field width, at root and inside unknown-size
/// masters, under the default and a small limit and every tolerance mask: the size error is raised exactly above the
/// limit, before any allocation; an element within the limit whose payload is missing costs at most its declared size.
pub fn unit_sizes() -> Report {
    let table = bs::doc_table();
    bs::set_table(table.clone());
    let mut rep = Report::new("bx_iter_sizes");
    rep.notes.push("BOUNDED: ids {Bin, Str, UInt, Long(2-byte id), Void} x size-field widths 1..=8 x declared sizes {0,1,5,6,8,9,126,1000,100000, limit-1, limit, limit+1, 2^32, 2^40, 2^55, 2^56-2 (those that fit the width)} x contexts {root, inside Root(unknown, 1-byte), inside Root(unknown, 8-byte), mid-document} x limits {default 4e9, 5, 100000} x all 8 tolerance masks x capacities {0, 64}".to_string());
    let prefixes: Vec<Vec<u8>> = vec![vec![], vec![0x81, 0xFF], vec![0x81, 0x01, 0xFF, 0xFF, 0xFF, 0xFF, 0xFF, 0xFF, 0xFF]];
    let ids: Vec<Vec<u8>> = vec![vec![0x85], vec![0x84], vec![0x82], vec![0x42, 0x86], vec![0xEC]];
    let default_limit: u64 = 4_000_000_000;
    for pre in &prefixes { for id in &ids { for w in 1..=8usize {
        let mut sizes: Vec<u64> = vec![0, 1, 5, 6, 8, 9, 126, 1000, 100_000, default_limit - 1, default_limit, default_limit + 1, 1 << 32, 1 << 40, 1 << 55, (1u64 << 56) - 2];
        sizes.retain(|n| (*n as u128) < (1u128 << (7 * w)) - 1);
        for n in sizes {
            let mut input = pre.clone();
            input.extend_from_slice(id);
            input.extend(sizef(n as usize, w));
            for (limit_cfg, limit) in [(None, default_limit), (Some(Some(5usize)), 5u64), (Some(Some(100_000usize)), 100_000u64)] {
                for allow in 0u8..8 { for cap in [0usize, 64] {
                    // do not let the library allocate gigabytes when the payload is merely missing
                    if n <= limit && n > 1_000_000 { continue; }
                    let cfg = Cfg { max: limit_cfg, allow, cap, ..Cfg::strict() };
                    let t = run(&input, &cfg);
                    rep.cases += 1; rep.nontrivial += 1;
                    check_total(&input, &cfg, &t, &mut rep);
                    let ctx = || format!("input={} {} -> {}", rf::hex(&input), cfg.show(), show_trace(&t));
                    let numeric_too_long = id[0] == 0x82 || id[0] == 0x42;
                    if n > limit {
                        // rejected before any allocation: with the size error unless an earlier check already rejects it
                        let earlier = matches!(t.err, Some(E::BadData { .. }) | Some(E::Hier { .. }) | Some(E::Oversize { .. }) | Some(E::BadId { .. }));
                        rep.clause("C17/C13: an element declaring more than the limit is rejected (size error unless an earlier check rejects it) under every tolerance mask", matches!(t.err, Some(E::TooBig { size, .. }) if size as u64 == n) || earlier, &ctx);
                        rep.clause("C17: a rejected oversize declaration causes no allocation for its payload", t.peak_buf <= cap.max(64), &ctx);
                    } else if !(numeric_too_long && n > 8) {
                        rep.clause("C17: an element within the limit whose payload is missing costs at most its declared size", t.peak_buf as u64 <= (cap.max(64) as u64).max(n), &ctx);
                        rep.clause("C13/C17: the size error is only raised for a declared size above the configured limit", !matches!(t.err, Some(E::TooBig { .. })), &ctx);
                    }
                } }
            }
        }
    } } }
    // the limit REMOVED (set_max_allowable_tag_size(None)): no declared size is too big; masters declare sizes without any
    // allocation, so sizes beyond the 4 GB default can be tried.  With the default (or a finite limit) the same input is rejected.
    for w in 5..=8usize { for n in [default_limit + 1, 5_000_000_000u64, 1 << 40] { for allow in 0u8..8 {
        if (n as u128) >= (1u128 << (7 * w)) - 1 { continue; }
        let mut input = vec![bs::ROOT as u8];
        input.extend(sizef(n as usize, w));
        input.extend_from_slice(&[bs::UINT as u8, 0x81, 0x01]);
        for (limit_cfg, removed) in [(Some(None), true), (None, false), (Some(Some(100_000usize)), false)] {
            let cfg = Cfg { max: limit_cfg, allow, cap: 0, ..Cfg::strict() };
            let t = run(&input, &cfg);
            rep.cases += 1; rep.nontrivial += 1;
            check_total(&input, &cfg, &t, &mut rep);
            let ctx = || format!("input={} {} -> {}", rf::hex(&input), cfg.show(), show_trace(&t));
            if removed {
                rep.clause("C13/C17: with the size limit removed no declared size is reported as too big (the limit is whatever was configured last)", !matches!(t.err, Some(E::TooBig { .. })) && t.items.len() >= 2, &ctx);
            } else {
                rep.clause("C17/C13: an element declaring more than the limit is rejected (size error unless an earlier check rejects it) under every tolerance mask", matches!(t.err, Some(E::TooBig { size, .. }) if size as u64 == n), &ctx);
            }
        }
    } } }
    // ids of every length 1..=8 x size fields of every width 1..=8 (headers of 2..16 bytes, the longest against the 16-byte
    // look-ahead), at the root and inside an unknown-size Root: capacity / chunking independence, masks, limits (check_input, deep)
    for idl in 1..=8usize { for w in 1..=8usize { for pre in [vec![], vec![bs::ROOT as u8, 0xFF]] {
        let mut input = pre.clone();
        input.push((1u8 << (8 - idl)) | 0x01);
        for k in 1..idl { input.push(0x20 + k as u8); }
        input.extend(sizef(2, w));
        input.extend_from_slice(&[0xAA, 0xBB]);
        input.extend_from_slice(&[bs::UINT as u8, 0x81, 0x01]);
        check_input(&table, &input, &mut rep, false, true);
    } } }
    rep
}

/// Unit 3: I/O errors from the source surface as a read error (C05), at every position
pub fn unit_ioerr() -> Report {
    let table = bs::doc_table();
    bs::set_table(table.clone());
    let mut rep = Report::new("bx_iter_ioerr");
    let mut docs = Vec::new();
    for b in 1..=3 { forests(None, b, false, &mut docs); }
    rep.notes.push(format!("BOUNDED: {} documents x every failure position of the source", docs.len()));
    for d in &docs {
        let (bytes, _) = encode_doc(d);
        for f in 0..=bytes.len() {
            let mut it = make(&bytes, &Cfg { chunk: vec![2], cap: 4, ..Cfg::strict() });
            it.source.fail_at = Some(f);
            let mut got_read_err = false; let mut other = None; let mut panicked = false;
            for _ in 0..(4 * bytes.len() + 24) {
                match std::panic::catch_unwind(std::panic::AssertUnwindSafe(|| it.next())) {
                    Err(_) => { panicked = true; break; }
                    Ok(None) => break,
                    Ok(Some(Ok(_))) => {}
                    Ok(Some(Err(e))) => { if matches!(e, TagIteratorError::ReadError { .. }) { got_read_err = true; } else { other = Some(format!("{:?}", e)); } break; }
                }
            }
            rep.cases += 1; rep.nontrivial += 1;
            rep.clause("C05: an I/O error from the source surfaces as a read error carrying the original error (never a panic, never another error kind)", !panicked && other.is_none() && got_read_err, || format!("input={} fail_at={} other={:?} panicked={}", rf::hex(&bytes), f, other, panicked));
            // a ONE-SHOT error (the source would deliver again afterwards): it must surface all the same, as the first error
            for (chunk, cap) in [(vec![2usize], 4usize), (vec![], 65536), (vec![1], 1), (vec![3], 3)] {
                let mut it = make(&bytes, &Cfg { chunk: chunk.clone(), cap, ..Cfg::strict() });
                it.source.fail_once_at = Some(f);
                let mut first_err: Option<String> = None; let mut panicked = false; let mut read_err = false;
                for _ in 0..(4 * bytes.len() + 24) {
                    match std::panic::catch_unwind(std::panic::AssertUnwindSafe(|| it.next())) {
                        Err(_) => { panicked = true; break; }
                        Ok(None) => break,
                        Ok(Some(Ok(_))) => {}
                        Ok(Some(Err(e))) => { read_err = matches!(&e, TagIteratorError::ReadError { source } if source.kind() == std::io::ErrorKind::ConnectionReset); first_err = Some(format!("{:?}", e)); break; }
                    }
                }
                rep.cases += 1;
                rep.clause("C05: a one-shot I/O error from the source is not swallowed: it surfaces as the read error carrying the original error", !panicked && read_err, || format!("input={} fail_once_at={} chunk={:?} cap={} first_err={:?} panicked={}", rf::hex(&bytes), f, chunk, cap, first_err, panicked));
            }
        }
    }
    rep
}
