#!/bin/sh
# Run once after a fresh restore, offline.  Nothing is downloaded; the framework is Python + the
# pre-installed verifiers.  This only checks that the tools answer and byte-compiles the framework.
set -e
cd "$(dirname "$0")"
export CARGO_NET_OFFLINE=true
python3 -m compileall -q vlib >/dev/null
python3 - <<'PY'
import json, sys
try:
    import jsonschema
    m = json.load(open('MANIFEST.json'))
    jsonschema.validate(m, json.load(open('/root/.vp/MANIFEST.schema.json')))
except ImportError:
    pass
except FileNotFoundError:
    pass
PY
cargo kani --version >/dev/null
verus --version >/dev/null 2>&1 || true
mkdir -p evidence replays
echo setup ok
