#!/usr/bin/env python3
"""seed_regress.py [--jobs N] [names...]: re-run the quick check of every seeded change against the CURRENT machinery, each in a
scratch worktree of /repo (never in /repo itself); prints one line per seed and writes /verif/seeded/REGRESSION.json.
A seed counts as detected iff the check of the property it breaks exits 1 with a VIOLATION line."""
import json, os, subprocess, sys, time
from concurrent.futures import ThreadPoolExecutor
args = sys.argv[1:]
jobs = 2
if '--jobs' in args:
    i = args.index('--jobs'); jobs = int(args[i + 1]); del args[i:i + 2]
names = args or sorted(d for d in os.listdir('/verif/seeded') if os.path.exists(f'/verif/seeded/{d}/patch.diff'))
def sh(cmd, **kw):
    return subprocess.run(cmd, shell=True, capture_output=True, text=True, **kw)
def work(slot_names):
    slot, todo = slot_names
    wt = f'/tmp/seedv/regress{slot}'
    sh(f'git -C /repo worktree remove --force {wt}')
    r = sh(f'git -C /repo worktree add -q --detach {wt} HEAD')
    assert r.returncode == 0, r.stderr
    out = {}
    try:
        for n in todo:
            meta = json.load(open(f'/verif/seeded/{n}/meta.json'))
            prop = meta['breaks_property']
            r = sh(f'git -C {wt} apply /verif/seeded/{n}/patch.diff')
            if r.returncode != 0:
                out[n] = {'property': prop, 'status': 'PATCH-DOES-NOT-APPLY'}
                print(n, prop, 'PATCH-DOES-NOT-APPLY', flush=True)
                continue
            t0 = time.time()
            pr = sh(f'./check {prop} --tier quick', cwd='/verif', env=dict(os.environ, VERIF_REPO=wt, VERIF_EVIDENCE_DIR=f'/tmp/scratch/regress_evidence{slot}'))
            viol = [l for l in pr.stdout.split('\n') if l.startswith('VIOLATION')]
            obl = [l.strip()[11:].split(':')[0] + ':' + l.strip()[11:].split(':')[1] for l in pr.stdout.split('\n') if l.startswith('  obligation')]
            det = pr.returncode == 1 and bool(viol)
            out[n] = {'property': prop, 'exit': pr.returncode, 'detected': det, 'by': sorted(set(o.split(':')[0] for o in obl)), 'wall_s': round(time.time() - t0, 1)}
            print(n, prop, 'exit', pr.returncode, 'DETECTED' if det else 'MISSED', ','.join(out[n]['by']), f'{time.time()-t0:.0f}s', flush=True)
            sh(f'git -C {wt} checkout -- .')
    finally:
        sh(f'git -C /repo worktree remove --force {wt}')
    return out
slots = [(k, names[k::jobs]) for k in range(jobs)]
res = {}
with ThreadPoolExecutor(jobs) as ex:
    for o in ex.map(work, slots):
        res.update(o)
json.dump({'repo_head': sh('git -C /repo rev-parse --short HEAD').stdout.strip(), 'verif_head': sh('git -C /verif rev-parse --short HEAD').stdout.strip(), 'results': res}, open('/verif/seeded/REGRESSION.json', 'w'), indent=1, sort_keys=True)
missed = [n for n, v in res.items() if not v.get('detected')]
print(f'{len(res)} seeds, {len(res) - len(missed)} detected, missed: {missed}')
