#!/usr/bin/env python3
"""Regenerates /verif/MANIFEST.json from contracts/property_map.toml (single source for levels and notes)."""
import json, os, tomllib
V = os.path.dirname(os.path.dirname(os.path.abspath(__file__)))
pm = tomllib.load(open(os.path.join(V, 'contracts', 'property_map.toml'), 'rb'))
na = pm.pop('not_applicable', {})
checks = []
for pid in sorted(k for k in pm if k.startswith('C')):
    c = pm[pid]
    checks.append({
        'property_id': pid,
        'quick_cmd': f'./check {pid} --tier quick',
        'thorough_cmd': f'./check {pid} --tier thorough',
        'evidence_file': f'/verif/evidence/{pid}.json',
        'replay_cmd_template': f'./check {pid} --replay {{path}}',
        'engine': c.get('engine', 'contracts'),
        'level_claimed': {'category': c['level'], 'text': c.get('level_text', c.get('explanation', ''))[:1500], 'design_ref': c.get('design_ref', 'DESIGN.md §5 ' + pid)},
        'level_note': c.get('level_note', '; '.join(c.get('trusted_base', []))),
        'technique': c.get('technique', 'contract-based deductive verification'),
    })
m = {
    'version': 1,
    'setup_cmd': './setup.sh',
    'hooks': {
        'guard': 'cfg(kani) / cfg(verif_rt) — set only inside the scratch overlay copy; no hook is committed to /repo',
        'enable': 'the checks copy /repo to a scratch overlay, inject kani::requires/ensures lines and #[cfg(any(kani, verif_rt))] child modules there, and build with `cargo kani` (cfg kani) or RUSTFLAGS=--cfg verif_rt',
        'baseline_off_cmd': 'cd /repo && cargo test --workspace --no-fail-fast --offline',
        'source_commits': [],
        'add_only': True,
    },
    'engines': [
        {'name': 'K', 'path': 'vlib/kani.py', 'kind_free_text': 'Kani 0.68 function contracts + full-domain harnesses on the real crate compiled in place (overlay)', 'serves_properties': sorted(p for p in pm if 'K' in pm[p].get('engines', ['K']))},
        {'name': 'V', 'path': 'vlib/verus.py', 'kind_free_text': 'Verus 0.2026.09.13 on functions extracted mechanically from /repo on every run', 'serves_properties': sorted(p for p in pm if 'V' in pm[p].get('engines', []))},
        {'name': 'BX', 'path': 'vlib/bx.py', 'kind_free_text': 'bounded stand-in: contract predicates executed natively around the real functions over an exhaustively enumerated bounded input space (labelled bounded)', 'serves_properties': sorted(p for p in pm if 'BX' in pm[p].get('engines', []))},
    ],
    'checks': checks,
    'notes': 'One entry point: ./check <ID> --tier quick|thorough. Exit 0 = all obligations discharged (KNOWN-FINDING lines possible), 1 = VIOLATION, 2 = undecided (verifier timeout/crash, lost anchor) and never an alarm. See DESIGN.md.',
    'not_applicable': [{'property_id': k, 'reason': v} for k, v in sorted(na.items())],
}
json.dump(m, open(os.path.join(V, 'MANIFEST.json'), 'w'), indent=1)
print('MANIFEST.json:', len(checks), 'checks,', len(m['not_applicable']), 'not applicable')
