#!/usr/bin/env python3
"""vbuild.py <unit.toml> <out.rs> [--run]: build a Verus unit from /repo (development aid)"""
import sys, os, json
sys.path.insert(0, os.path.dirname(os.path.dirname(os.path.abspath(__file__))))
from vlib import verus
u, info = verus.build_unit(sys.argv[1], sys.argv[2])
print('faithful', info['faithful'], 'functions', len(info['functions']))
if '--run' in sys.argv:
    p, err, wall, cmd = verus.run_verus(sys.argv[2], timeout=900)
    print(err, round(wall, 1))
    if p:
        d = verus.parse(p)
        print(p.stderr[-6000:])
        if d: print(json.dumps(d.get('verification-results')))
