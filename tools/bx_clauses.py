#!/usr/bin/env python3
"""Regenerates bx/clauses.json (unit -> clause texts) by scanning the bounded-unit sources for
rep.clause("...") / rep.declare("...") literals, so `check` knows which units serve a property
without running them."""
import json, os, re, tomllib
V = os.path.dirname(os.path.dirname(os.path.abspath(__file__)))
src_of = {'bx_writer': ['bx/verif_bx_writer.rs'], 'bx_iter': ['bx/verif_bx_iter.rs'], 'bx_path': ['bx/verif_bx_path.rs'], 'bx_spec': ['bx/verif_bx_spec.rs']}
units = tomllib.load(open(os.path.join(V, 'bx', 'units.toml'), 'rb')).get('unit', [])
out = {}
for u in units:
    cl = {}
    for f in u.get('sources', src_of.get(u['name'], [])):
        txt = open(os.path.join(V, f)).read()
        for m in re.finditer(r'rep\.(?:clause|declare)\(\s*"((?:[^"\\]|\\.)*)"', txt):
            c = m.group(1)
            only = u.get('clause_prefix')
            cl[c] = True
    out[u['name']] = cl
json.dump(out, open(os.path.join(V, 'bx', 'clauses.json'), 'w'), indent=1)
print({k: len(v) for k, v in out.items()})
