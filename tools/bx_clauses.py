#!/usr/bin/env python3
"""Regenerates bx/clauses.json: for every bounded unit the list of contract clauses it evaluates at quick
settings (observed by running the unit on the current /repo tree).  `check` uses the list (a) to know which
units serve a property without running all of them and (b) as the vacuity guard: a listed clause that a
later run no longer evaluates is reported as undecided, never as a pass."""
import json, os, shutil, subprocess, sys, tempfile, tomllib
V = os.path.dirname(os.path.dirname(os.path.abspath(__file__)))
sys.path.insert(0, V)
from vlib import overlay, engines
units = tomllib.load(open(os.path.join(V, 'bx', 'units.toml'), 'rb')).get('unit', [])
scratch = tempfile.mkdtemp(prefix='verif-bxclauses-')
try:
    ov = os.path.join(scratch, 'ov')
    overlay.build(ov)
    ok, exe = engines.build_native(ov, 'verif_replay', os.path.join(scratch, 'b.log'), release=True)
    assert ok, open(os.path.join(scratch, 'b.log')).read()[-3000:]
    out = {}
    for u in units:
        p = subprocess.run([exe, '--bx', u['name']] + u['args_quick'], capture_output=True, text=True)
        d = json.loads([l for l in p.stdout.split('\n') if l.startswith('{')][-1])
        out[u['name']] = {c: st['checked'] for c, st in sorted(d['clauses'].items())}
        bad = {c: st for c, st in d['clauses'].items() if st['failed']}
        print(u['name'], len(out[u['name']]), 'clauses', 'FAILING: %s' % bad if bad else '')
    json.dump(out, open(os.path.join(V, 'bx', 'clauses.json'), 'w'), indent=1)
finally:
    shutil.rmtree(scratch, ignore_errors=True)
