#!/bin/sh
# run every claimed check (quick by default) on the unchanged tree and validate the evidence files
cd "$(dirname "$0")/.."
TIER=${1:-quick}
fail=0
for p in $(python3 -c "import json;print(' '.join(c['property_id'] for c in json.load(open('MANIFEST.json'))['checks']))"); do
  ./check $p --tier $TIER > /tmp/verif_runall_$p.log 2>&1; rc=$?
  echo "$p exit=$rc $(tail -1 /tmp/verif_runall_$p.log | cut -c1-150)"
  [ $rc -ne 0 ] && fail=1
done
python3-vt - <<'PY'
import json, jsonschema, glob
s=json.load(open('/root/.vp/EVIDENCE.schema.json'))
for f in sorted(glob.glob('/verif/evidence/*.json')):
    d=json.load(open(f))
    try:
        jsonschema.validate(d,s)
        if d['level']=='proof' and d['coverage']['obligations']!=d['coverage']['discharged']: print(f,'proof level but discharged != obligations')
    except Exception as e:
        print(f,'INVALID',str(e)[:200])
print('evidence validated')
PY
exit $fail
