#!/usr/bin/env python3
"""harmless_eval.py <name> [tier] [props...] [--only K,V,...]: apply /verif/harmless/<name>/patch.diff (a behaviour-preserving
refactoring) to /repo, run ./check for the listed properties, record exit codes in meta.json and ALWAYS undo the patch.
A false alarm is exit 1 / a VIOLATION line; exit 2 (undecided: lost anchor etc.) is recorded but is not an alarm."""
import json, os, subprocess, sys, time
args = sys.argv[1:]
only = None
if '--only' in args:
    i = args.index('--only'); only = args[i + 1]; del args[i:i + 2]
name = args[0]
tier = args[1] if len(args) > 1 else 'quick'
d = f'/verif/harmless/{name}'
mp = f'{d}/meta.json'
meta = json.load(open(mp)) if os.path.exists(mp) else {'name': name}
props = args[2:] or meta.get('props') or []
st = subprocess.run('git -C /repo status --short', shell=True, capture_output=True, text=True).stdout.strip()
assert st == '', '/repo not clean: ' + st
r = subprocess.run(f'git -C /repo apply {d}/patch.diff', shell=True, capture_output=True, text=True)
assert r.returncode == 0, r.stderr
try:
    for p in props:
        t0 = time.time()
        cmd = f'./check {p} --tier {tier}' + (f' --only {only}' if only else '')
        pr = subprocess.run(cmd, shell=True, cwd='/verif', capture_output=True, text=True, env=dict(os.environ, VERIF_EVIDENCE_DIR='/tmp/scratch/seed_evidence'))
        out = pr.stdout
        viol = [l for l in out.split('\n') if l.startswith('VIOLATION')]
        und = [l for l in out.split('\n') if l.startswith('UNDECIDED') or l.startswith('INFRA-ERROR')]
        key = f'{p}:{tier}' + (f':{only}' if only else '')
        meta.setdefault('checks', {})[key] = {'exit': pr.returncode, 'false_alarm': pr.returncode == 1 or bool(viol), 'violations': [v[:300] for v in viol],
                                              'undecided': [u[:300] for u in und][:5], 'wall_s': round(time.time() - t0, 1)}
        print(name, key, 'exit', pr.returncode, 'FALSE-ALARM' if (pr.returncode == 1 or viol) else ('undecided' if pr.returncode == 2 else 'ok'), f'{time.time()-t0:.0f}s')
        for u in (viol + und)[:4]:
            print('   ', u[:260])
finally:
    subprocess.run('git -C /repo checkout -- . && git -C /repo status --short', shell=True)
json.dump(meta, open(mp, 'w'), indent=1)
