#!/usr/bin/env python3
"""seed_confirm.py <ID> <outdir> [name]: confirm a seeded change independently in a fresh scratch worktree of /repo:
patch applies; existing suite passes with it; demo passes without it and fails with it.  Copies the
artefacts to /verif/seeded/<name>/ with meta.json.  The worktree is removed afterwards."""
import json, os, shutil, subprocess, sys
pid, out = sys.argv[1], sys.argv[2]
name = sys.argv[3] if len(sys.argv) > 3 else pid
wt = f'/tmp/seedv/{name}'
def sh(cmd, cwd=None, timeout=1800):
    p = subprocess.run(cmd, shell=True, cwd=cwd, capture_output=True, text=True, timeout=timeout)
    return p.returncode, (p.stdout + p.stderr)
os.makedirs('/tmp/seedv', exist_ok=True)
sh(f'git -C /repo worktree remove --force {wt}')
rc, o = sh(f'git -C /repo worktree add -q --detach {wt} HEAD')
assert rc == 0, o
res = {'id': name, 'property': pid, 'repo_head': sh('git -C /repo rev-parse --short HEAD')[1].strip()}
try:
    shutil.copy(f'{out}/seed_demo.rs', f'{wt}/tests/seed_demo.rs')
    FEAT = os.environ.get('SEED_FEATURES', '')
    rc, o = sh(f'cargo test --offline {FEAT} --test seed_demo 2>&1 | tail -15', cwd=wt)
    res['demo_without_patch'] = 'pass' if 'test result: ok' in o and 'FAILED' not in o and ' 0 passed' not in o else 'FAIL'
    res['demo_without_tail'] = o[-600:]
    rc, o = sh(f'git apply {out}/patch.diff', cwd=wt)
    res['patch_applies'] = rc == 0
    os.rename(f'{wt}/tests/seed_demo.rs', f'{wt}/seed_demo.rs.aside')
    rc, o = sh('cargo test --workspace --no-fail-fast --offline 2>&1 | grep -E "^test result|FAILED|^error"', cwd=wt)
    res['suite_with_patch'] = 'pass' if 'FAILED' not in o and 'error' not in o and o.count('test result: ok') >= 5 else 'FAIL'
    res['suite_counts'] = [l for l in o.split('\n') if l.startswith('test result')]
    os.rename(f'{wt}/seed_demo.rs.aside', f'{wt}/tests/seed_demo.rs')
    rc, o = sh(f'cargo test --offline {FEAT} --test seed_demo 2>&1 | tail -25', cwd=wt)
    res['demo_with_patch'] = 'fail' if ('FAILED' in o or 'panicked' in o) else 'PASS?'
    res['demo_with_tail'] = o[-900:]
    ok = res['demo_without_patch'] == 'pass' and res['patch_applies'] and res['suite_with_patch'] == 'pass' and res['demo_with_patch'] == 'fail'
    res['confirmed'] = ok
    if ok:
        d = f'/verif/seeded/{name}'
        os.makedirs(d, exist_ok=True)
        shutil.copy(f'{out}/patch.diff', d)
        shutil.copy(f'{out}/seed_demo.rs', d)
        if os.path.exists(f'{out}/README.md'):
            shutil.copy(f'{out}/README.md', f'{d}/README.agent.md')
        meta = {'id': name, 'breaks_property': pid, 'confirmed_at_repo_head': res['repo_head'],
                'what_i_ran': ['git worktree add (fresh, outside /repo and /verif)', 'cargo test --offline --test seed_demo  (without patch: pass)', 'git apply patch.diff',
                               'cargo test --workspace --no-fail-fast --offline (with patch, demo moved aside: all pass) ' + '; '.join(res['suite_counts']),
                               'cargo test --offline --test seed_demo (with patch: fails)'],
                'needs_to_manifest': 'see README.agent.md', 'checks': {}}
        json.dump(meta, open(f'{d}/meta.json', 'w'), indent=1)
finally:
    sh(f'git -C /repo worktree remove --force {wt}')
print(json.dumps({k: v for k, v in res.items() if not k.endswith('_tail')}))
if not res.get('confirmed'):
    print(res.get('demo_without_tail', ''), res.get('demo_with_tail', ''))
