#!/usr/bin/env python3
"""seed_eval.py <seed-name> [tier] [props...]: apply /verif/seeded/<name>/patch.diff to /repo, run ./check for the
property it breaks (or the listed ones), record the outcome in meta.json, and ALWAYS undo the patch."""
import json, os, subprocess, sys, time
name = sys.argv[1]
tier = sys.argv[2] if len(sys.argv) > 2 else 'quick'
d = f'/verif/seeded/{name}'
meta = json.load(open(f'{d}/meta.json'))
props = sys.argv[3:] or [meta['breaks_property']]
st = subprocess.run('git -C /repo status --short', shell=True, capture_output=True, text=True).stdout.strip()
assert st == '', '/repo not clean: ' + st
r = subprocess.run(f'git -C /repo apply {d}/patch.diff', shell=True, capture_output=True, text=True)
assert r.returncode == 0, r.stderr
try:
    for p in props:
        t0 = time.time()
        pr = subprocess.run(f'./check {p} --tier {tier}', shell=True, cwd='/verif', capture_output=True, text=True, env=dict(os.environ, VERIF_EVIDENCE_DIR='/tmp/scratch/seed_evidence'))
        out = pr.stdout
        viol = [l for l in out.split('\n') if l.startswith('VIOLATION')]
        und = [l for l in out.split('\n') if l.startswith('UNDECIDED') or l.startswith('INFRA-ERROR')]
        obl = [l.strip() for l in out.split('\n') if l.startswith('  obligation')]
        meta.setdefault('checks', {})[f'{p}:{tier}'] = {'exit': pr.returncode, 'detected': pr.returncode == 1 and bool(viol), 'violations': [v[:300] for v in viol], 'obligations': [o[:300] for o in obl][:8],
                                                        'undecided': [u[:200] for u in und][:5], 'wall_s': round(time.time() - t0, 1)}
        print(name, p, tier, 'exit', pr.returncode, 'DETECTED' if pr.returncode == 1 and viol else 'MISSED', f'{time.time()-t0:.0f}s')
        for o in obl[:4]:
            print('   ', o[:220])
        for u in und[:3]:
            print('   ', u[:220])
finally:
    subprocess.run('git -C /repo checkout -- . && git -C /repo status --short', shell=True)
json.dump(meta, open(f'{d}/meta.json', 'w'), indent=1)
