// Specification vocabulary and assumed interfaces for the iterator's buffer/cursor layer (DESIGN.md §3, §7).
global size_of usize == 8;   // ASSUMPTION: 64-bit usize

// std types that only occur inside error values: opaque to the proof
#[verifier::external_type_specification]
#[verifier::external_body]
pub struct ExIoError(std::io::Error);
#[verifier::external_type_specification]
#[verifier::external_body]
pub struct ExFromUtf8Error(std::string::FromUtf8Error);

// ASSUMED specification of u8::ilog2 (std): position of the highest set bit
pub open spec fn sp_ilog2(b: u8) -> u32 { if b >= 128 { 7 } else if b >= 64 { 6 } else if b >= 32 { 5 } else if b >= 16 { 4 } else if b >= 8 { 3 } else if b >= 4 { 2 } else if b >= 2 { 1 } else { 0 } }
pub assume_specification [u8::ilog2](b: u8) -> (r: u32) requires b != 0 ensures r == sp_ilog2(b);

/// big-endian value of a byte sequence
pub open spec fn sp_be(s: Seq<u8>) -> nat decreases s.len() {
    if s.len() == 0 { 0 } else { sp_be(s.subrange(0, s.len() - 1)) * 256 + s[s.len() - 1] as nat }
}
pub open spec fn pow256(n: nat) -> nat decreases n { if n == 0 { 1 } else { 256 * pow256((n - 1) as nat) } }
proof fn lemma_pow256()
    ensures pow256(0) == 1, pow256(1) == 0x100, pow256(2) == 0x1_0000, pow256(3) == 0x100_0000, pow256(4) == 0x1_0000_0000, pow256(5) == 0x100_0000_0000, pow256(6) == 0x1_0000_0000_0000, pow256(7) == 0x100_0000_0000_0000, pow256(8) == 0x1_0000_0000_0000_0000
{ reveal_with_fuel(pow256, 10); }

/// length of the id at the start of `a` (the iterator's convention: a first byte 0x00 is the one-byte id 0)
pub open spec fn sp_id_len(a: Seq<u8>) -> int { if a.len() == 0 || a[0] == 0 { 1 } else { 8 - sp_ilog2(a[0]) as int } }
/// C03 (mirror, header level): `id`, `size` and the header length `hl` are exactly what the bytes `a` at the cursor
/// encode — the id is the big-endian value of its first sp_id_len(a) bytes, the size field follows immediately, has the
/// length its first byte announces, and carries `size` (all-ones = Unknown)
pub open spec fn sp_header(a: Seq<u8>, id: u64, size: EBMLSize, hl: int) -> bool {
    let il = sp_id_len(a);
    let l = hl - il;
    &&& a.len() > 0 && il < hl <= a.len()
    &&& id == (if a[0] == 0 { 0 } else { sp_be(a.subrange(0, il)) })
    &&& a[il] != 0 && l == 8 - sp_ilog2(a[il])
    &&& sp_be(a.subrange(il, hl)) >= pow128(l as nat)
    &&& size == sp_size((sp_be(a.subrange(il, hl)) - pow128(l as nat)) as u64, l as usize)
}
/// the id the bytes at the cursor encode
pub open spec fn sp_header_id(a: Seq<u8>) -> u64 { if a.len() == 0 || a[0] == 0 { 0 } else { sp_be(a.subrange(0, sp_id_len(a))) as u64 } }
/// the header predicate only looks at the first `hl` bytes
pub proof fn lemma_header_prefix(a: Seq<u8>, o: Seq<u8>, id: u64, size: EBMLSize, hl: int)
    requires sp_header(a, id, size, hl), a.len() <= o.len(), o.subrange(0, a.len() as int) == a,
    ensures sp_header(o, id, size, hl),
{
    let il = sp_id_len(a);
    assert(o[0] == a[0]);
    assert(o[il] == o.subrange(0, a.len() as int)[il]);
    assert(o.subrange(0, il) =~= a.subrange(0, il));
    assert(o.subrange(il, hl) =~= a.subrange(il, hl));
}
pub open spec fn sp_off(o: Option<usize>) -> int { match o { Some(v) => v as int, None => 0 } }

/// Model of std::io::Read (ASSUMED, DESIGN.md §7): a finite, addressable stream of bytes.  `read` may return
/// any prefix of what remains — including Ok(0) at any time — and never more than it holds.
pub trait Read: Sized {
    /// bytes the source has yet to deliver
    spec fn remaining(&self) -> Seq<u8>;
    /// number of bytes delivered so far
    spec fn consumed(&self) -> nat;
    /// number of reads that returned Ok(0) so far ("the source reported end of data")
    spec fn zero_reads(&self) -> nat;
}

/// R4 helper: `self.source.read(&mut self.buffer[start..]).map_err(|source| TagIteratorError::ReadError { source })?`
/// (a `&mut` sub-slice of an owned field is opaque to this Verus).  ASSUMED contract = the Read model.
#[verifier::external_body]
fn r4_read<R: Read>(source: &mut R, buffer: &mut Box<[u8]>, start: usize) -> (r: Result<usize, TagIteratorError>)
    requires start <= old(buffer)@.len(),
    ensures
        final(buffer)@.len() == old(buffer)@.len(),
        match r {
            Ok(n) => {
                &&& n <= old(buffer)@.len() - start
                &&& n <= old(source).remaining().len()
                &&& final(buffer)@ == old(buffer)@.subrange(0, start as int) + old(source).remaining().subrange(0, n as int) + old(buffer)@.subrange(start + n, old(buffer)@.len() as int)
                &&& final(source).remaining() == old(source).remaining().subrange(n as int, old(source).remaining().len() as int)
                &&& final(source).consumed() == old(source).consumed() + n
                &&& final(source).zero_reads() == old(source).zero_reads() + (if n == 0 { 1nat } else { 0nat })
            },
            Err(e) => e is ReadError && final(buffer)@ == old(buffer)@ && final(source).remaining() == old(source).remaining() && final(source).consumed() == old(source).consumed() && final(source).zero_reads() == old(source).zero_reads(),
        }
{ unimplemented!() }

/// R4 helper: `self.buffer.copy_within(a..b, 0)` — ASSUMED contract (std)
#[verifier::external_body]
fn r4_copy_within(buffer: &mut Box<[u8]>, a: usize, b: usize)
    requires a <= b <= old(buffer)@.len(),
    ensures
        final(buffer)@.len() == old(buffer)@.len(),
        final(buffer)@.subrange(0, b - a) == old(buffer)@.subrange(a as int, b as int),
{ unimplemented!() }

/// R4 helper: `let mut v = Vec::from(&self.buffer[..]); v.resize(n, 0); self.buffer = v.into_boxed_slice();` — ASSUMED contract (std)
#[verifier::external_body]
fn r4_grow(buffer: &mut Box<[u8]>, required_capacity: usize)
    requires required_capacity > old(buffer)@.len(),
    ensures
        final(buffer)@.len() == required_capacity,
        final(buffer)@.subrange(0, old(buffer)@.len() as int) == old(buffer)@,
{ unimplemented!() }


// ---------------------------------------------------------------------------------------------
// header layer (peek_valid_tag_header): interfaces and assumed contracts
// ---------------------------------------------------------------------------------------------

// R1: collapsed trait interface; results tied to uninterpreted spec functions (holds for every specification)
pub trait EbmlSpecification: Sized + Clone {
    spec fn sp_type(id: u64) -> Option<TagDataType>;
    spec fn sp_path(id: u64) -> Seq<PathPart>;
    // what the specification's constructors return (deterministic functions of their arguments)
    spec fn sp_mk_start(id: u64) -> Option<Self>;
    spec fn sp_mk_uint(id: u64, v: u64) -> Option<Self>;
    spec fn sp_mk_int(id: u64, v: i64) -> Option<Self>;
    spec fn sp_mk_utf8(id: u64, v: Seq<char>) -> Option<Self>;
    spec fn sp_mk_bin(id: u64, v: Seq<u8>) -> Option<Self>;
    spec fn sp_mk_float(id: u64, v: f64) -> Option<Self>;
    spec fn sp_mk_raw(id: u64, v: Seq<u8>) -> Self;
    spec fn sp_mk_end(id: u64) -> Option<Self>;
    spec fn sp_id(&self) -> u64;
    spec fn sp_master(&self) -> Option<Master<Self>>;
    fn get_id(&self) -> (r: u64) ensures r == self.sp_id();
    fn as_master(&self) -> (r: Option<&Master<Self>>) ensures (match r { Some(m) => self.sp_master() == Some(*m), None => self.sp_master() is None });
    fn get_tag_data_type(id: u64) -> (r: Option<TagDataType>) ensures r == Self::sp_type(id);
    fn get_path_by_id(id: u64) -> (r: &'static [PathPart]) ensures r@ == Self::sp_path(id);
    fn get_master_tag(id: u64, data: Master<Self>) -> (r: Option<Self>) ensures data is Start ==> r == Self::sp_mk_start(id), data is End ==> r == Self::sp_mk_end(id);
    fn get_unsigned_int_tag(id: u64, data: u64) -> (r: Option<Self>) ensures r == Self::sp_mk_uint(id, data);
    fn get_signed_int_tag(id: u64, data: i64) -> (r: Option<Self>) ensures r == Self::sp_mk_int(id, data);
    fn get_utf8_tag(id: u64, data: String) -> (r: Option<Self>) ensures r == Self::sp_mk_utf8(id, data@);
    fn get_binary_tag(id: u64, data: &[u8]) -> (r: Option<Self>) ensures r == Self::sp_mk_bin(id, data@);
    fn get_float_tag(id: u64, data: f64) -> (r: Option<Self>) ensures r == Self::sp_mk_float(id, data);
    fn get_raw_tag(id: u64, data: &[u8]) -> (r: Self) ensures r == Self::sp_mk_raw(id, data@);
}
/// "internally consistent specification" (documented precondition of the iterator; C18 establishes it for derived
/// specifications): the constructor that matches the declared type of an id answers
pub open spec fn sp_ctor_consistent<T: EbmlSpecification>() -> bool {
    &&& forall|id: u64| T::sp_type(id) == Some(TagDataType::Master) ==> (#[trigger] T::sp_mk_start(id)) is Some
    &&& forall|id: u64, v: u64| T::sp_type(id) == Some(TagDataType::UnsignedInt) ==> (#[trigger] T::sp_mk_uint(id, v)) is Some
    &&& forall|id: u64, v: i64| T::sp_type(id) == Some(TagDataType::Integer) ==> (#[trigger] T::sp_mk_int(id, v)) is Some
    &&& forall|id: u64, v: Seq<char>| T::sp_type(id) == Some(TagDataType::Utf8) ==> (#[trigger] T::sp_mk_utf8(id, v)) is Some
    &&& forall|id: u64, v: Seq<u8>| T::sp_type(id) == Some(TagDataType::Binary) ==> (#[trigger] T::sp_mk_bin(id, v)) is Some
    &&& forall|id: u64, v: f64| T::sp_type(id) == Some(TagDataType::Float) ==> (#[trigger] T::sp_mk_float(id, v)) is Some
    &&& forall|t: T| (#[trigger] t.sp_master()) matches Some(Master::Start) ==> T::sp_mk_end(t.sp_id()) is Some
}
/// payload decoders of tools.rs as functions of the payload bytes (what they compute is PROVED by engine K:
/// k_arr_to_u64 / k_arr_to_i64 / k_arr_to_f64); None = the decoder rejects the length
pub open spec fn sp_dec_uint(b: Seq<u8>) -> Option<u64> { if b.len() <= 8 { Some(sp_be(b) as u64) } else { None } }
pub uninterp spec fn sp_dec_int(b: Seq<u8>) -> Option<i64>;
pub uninterp spec fn sp_dec_float(b: Seq<u8>) -> Option<f64>;
pub uninterp spec fn sp_dec_utf8(b: Seq<u8>) -> Option<Seq<char>>;
/// C03 (mirror, element level): the tag an element (id, declared type, payload bytes) stands for; None = CorruptedTagData
pub open spec fn sp_decode<T: EbmlSpecification>(ty: Option<TagDataType>, id: u64, b: Seq<u8>) -> Option<T> {
    match ty {
        Some(TagDataType::Master) => T::sp_mk_start(id),
        Some(TagDataType::UnsignedInt) => match sp_dec_uint(b) { Some(v) => T::sp_mk_uint(id, v), None => None },
        Some(TagDataType::Integer) => match sp_dec_int(b) { Some(v) => T::sp_mk_int(id, v), None => None },
        Some(TagDataType::Utf8) => match sp_dec_utf8(b) { Some(v) => T::sp_mk_utf8(id, v), None => None },
        Some(TagDataType::Binary) => T::sp_mk_bin(id, b),
        Some(TagDataType::Float) => match sp_dec_float(b) { Some(v) => T::sp_mk_float(id, v), None => None },
        None => Some(T::sp_mk_raw(id, b)),
    }
}
/// R4 helpers for `tools::arr_to_X(raw_data).map_err(|e| TagIteratorError::CorruptedTagData{ tag_id, problem: e })` (closure) — contracts = K
#[verifier::external_body]
fn r4_arr_to_u64(raw: &[u8], tag_id: u64) -> (r: Result<u64, TagIteratorError>)
    ensures (match r { Ok(v) => sp_dec_uint(raw@) == Some(v), Err(e) => sp_dec_uint(raw@) is None && e is CorruptedTagData }),
{ unimplemented!() }
#[verifier::external_body]
fn r4_arr_to_i64(raw: &[u8], tag_id: u64) -> (r: Result<i64, TagIteratorError>)
    ensures (match r { Ok(v) => sp_dec_int(raw@) == Some(v), Err(e) => sp_dec_int(raw@) is None && e is CorruptedTagData }),
{ unimplemented!() }
#[verifier::external_body]
fn r4_arr_to_f64(raw: &[u8], tag_id: u64) -> (r: Result<f64, TagIteratorError>)
    ensures (match r { Ok(v) => sp_dec_float(raw@) == Some(v), Err(e) => sp_dec_float(raw@) is None && e is CorruptedTagData }),
{ unimplemented!() }
/// `String::from_utf8(raw_data.to_vec()).map_err(|e| TagIteratorError::CorruptedTagData{ tag_id, problem: ToolError::FromUtf8Error(raw_data.to_vec(), e) })` (std)
#[verifier::external_body]
fn r4_from_utf8(raw: &[u8], tag_id: u64) -> (r: Result<String, TagIteratorError>)
    ensures (match r { Ok(v) => sp_dec_utf8(raw@) == Some(v@), Err(e) => sp_dec_utf8(raw@) is None && e is CorruptedTagData }),
{ unimplemented!() }
/// `x.unwrap_or_else(|| panic!("Bad specification implementation: ..."))` — `requires x is Some`: the documented panic of an
/// internally inconsistent specification must be excluded by sp_ctor_consistent
#[verifier::external_body]
fn r4_expect<T>(x: Option<T>, tag_id: u64) -> (r: T)
    requires x is Some,
    ensures Some(r) == x,
{ unimplemented!() }
/// `buffer[a..b].to_vec()` (the partial payload reported with an end-of-file error)
#[verifier::external_body]
fn r4_partial(buffer: &Box<[u8]>, a: usize, b: usize) -> (r: Vec<u8>)
    requires a <= b <= buffer@.len(),
    ensures r@ == buffer@.subrange(a as int, b as int),
{ unimplemented!() }

// ASSUMED specification of Result::or (std)
pub assume_specification<T, E1, F> [Result::<T, E1>::or::<F>](r: Result<T, E1>, res: Result<T, F>) -> (o: Result<T, F>)
    ensures o == (match r { Ok(v) => Ok::<T, F>(v), Err(_) => res });

pub open spec fn pow128(n: nat) -> nat decreases n { if n == 0 { 1 } else { 128 * pow128((n - 1) as nat) } }
/// contract of tools::read_vint — PROVED by engine K (k_read_vint, k_lemma_vint_value_bound; slices <= 9 bytes); assumed here
pub open spec fn sp_read_vint(b: Seq<u8>, r: Result<Option<(u64, usize)>, ToolError>) -> bool {
    if b.len() == 0 { r matches Ok(None) }
    else if b[0] == 0 { r is Err }
    else if b.len() < 8 - sp_ilog2(b[0]) { r matches Ok(None) }
    else { r matches Ok(Some((v, l))) && l == 8 - sp_ilog2(b[0]) && v + pow128(l as nat) == sp_be(b.subrange(0, l as int)) && v < 0x0100_0000_0000_0000 }
}
pub mod tools {
    use super::*;
    #[verifier::external_body]
    pub fn read_vint(buffer: &[u8]) -> (r: Result<Option<(u64, usize)>, ToolError>)
        ensures sp_read_vint(buffer@, r)
    { unimplemented!() }
}
/// contract of EBMLSize::new — PROVED by engine K (k_ebml_size_new); assumed here
pub open spec fn sp_size(size: u64, l: usize) -> EBMLSize {
    if 1 <= l <= 8 && size + 1 == pow128(l as nat) { EBMLSize::Unknown } else { EBMLSize::Known(size as usize) }
}

/// C11: the verdict of the hierarchy matcher on the open stack (unit path_matcher proves it equals the path pattern semantics)
pub uninterp spec fn sp_valid_path<TSpec: EbmlSpecification>(stack: Seq<ProcessingTag<TSpec>>, tag_id: u64) -> bool;
/// the implied ancestors seeded from the first non-global element's path
pub uninterp spec fn sp_seeded<TSpec: EbmlSpecification>(path: Seq<PathPart>) -> Seq<ProcessingTag<TSpec>>;
pub open spec fn sp_all_ids(path: Seq<PathPart>) -> bool { forall|i: int| 0 <= i < path.len() ==> path[i] is Id }
/// C06/C13: some known-size open master ends before cursor + size
pub open spec fn sp_overruns<TSpec: EbmlSpecification>(stack: Seq<ProcessingTag<TSpec>>, cursor: int, size: int) -> bool {
    exists|i: int| 0 <= i < stack.len() && #[trigger] stack[i].size is Known && stack[i].data_start + stack[i].size->Known_0 < cursor + size
}
pub uninterp spec fn sp_last_id<TSpec: EbmlSpecification>(stack: Seq<ProcessingTag<TSpec>>) -> Option<u64>;

/// R4 helper for the block `if path.iter().all(|p| matches!(p, PathPart::Id(_))) { self.tag_stack = path.iter().map(..).collect(); self.has_determined_doc_path = true; }` — ASSUMED
#[verifier::external_body]
fn r4_seed_stack<TSpec: EbmlSpecification>(path: &'static [PathPart], tag_stack: &mut Vec<ProcessingTag<TSpec>>, flag: &mut bool)
    ensures sp_all_ids(path@) ==> final(tag_stack)@ == sp_seeded::<TSpec>(path@) && *final(flag),
            !sp_all_ids(path@) ==> final(tag_stack)@ == old(tag_stack)@ && *final(flag) == *old(flag),
{ unimplemented!() }
/// R4 helper for `self.tag_stack.last().map(|tag| tag.tag.get_id())` — ASSUMED
#[verifier::external_body]
fn r4_last_id<TSpec: EbmlSpecification>(tag_stack: &Vec<ProcessingTag<TSpec>>) -> (r: Option<u64>) ensures r == sp_last_id::<TSpec>(tag_stack@) { unimplemented!() }

/// R4 helper for the loop `for tag in self.tag_stack.iter_mut() { if let Known(size) = &tag.size { tag.size = Known(size + diff); } }` — ASSUMED
/// (enlarges every known-size open master by the skipped distance; bounded-checked by bx_iter_docs C14 clauses)
#[verifier::external_body]
fn r4_enlarge_known<TSpec: EbmlSpecification>(tag_stack: &mut Vec<ProcessingTag<TSpec>>, diff: usize)
    ensures final(tag_stack)@.len() == old(tag_stack)@.len(),
{ unimplemented!() }

/// R4 helper for `panic!("read position exceeded buffer length")`: requires false, i.e. Verus must prove the call unreachable
#[verifier::external_body]
fn r4_unreachable_panic()
    requires false
{ unimplemented!() }


// ---------------------------------------------------------------------------------------------
// upper layer (read_next): the stack of open masters and the emission queue
// ---------------------------------------------------------------------------------------------
pub type Item<T> = Result<(T, usize), TagIteratorError>;
/// the End items of the masters `s`, innermost first, each with the offset of its Start
pub open spec fn sp_ends_rev<T: EbmlSpecification>(s: Seq<ProcessingTag<T>>) -> Seq<Item<T>> {
    Seq::new(s.len(), |i: int| Ok::<(T, usize), TagIteratorError>((s[s.len() - 1 - i].tag, s[s.len() - 1 - i].tag_start)))
}
/// index of the outermost open known-size master whose byte range is exhausted at `cur` (it and everything nested in it
/// ends), searching from `k`; the length of the stack if there is none
pub open spec fn sp_first_ended_from<T: EbmlSpecification>(s: Seq<ProcessingTag<T>>, cur: int, k: int) -> int
    decreases s.len() - k
{
    if k < 0 || k >= s.len() { s.len() as int } else if sp_ended_at(s, cur, k) { k } else { sp_first_ended_from(s, cur, k + 1) }
}
pub open spec fn sp_ended_at<T: EbmlSpecification>(s: Seq<ProcessingTag<T>>, cur: int, i: int) -> bool {
    s[i].size is Known && cur >= s[i].data_start + s[i].size->Known_0
}
/// (id, size) of every open master, outermost first — what open_path_len is given
pub open spec fn sp_doc_path<T: EbmlSpecification>(s: Seq<ProcessingTag<T>>) -> Seq<(u64, EBMLSize)> {
    Seq::new(s.len(), |i: int| (s[i].tag.sp_id(), s[i].size))
}
/// spec_util::open_path_len (unit path_matcher PROVES it equals the path-pattern semantics): how many of the open
/// masters stay open when an element with this id arrives
pub uninterp spec fn sp_open_len<T: EbmlSpecification>(id: u64, doc_path: Seq<(u64, EBMLSize)>) -> int;
#[verifier::external_body]
fn open_path_len<T: EbmlSpecification>(tag_id: u64, doc_path: &[(u64, EBMLSize)]) -> (r: usize)
    ensures r == sp_open_len::<T>(tag_id, doc_path@), r <= doc_path@.len(),
{ unimplemented!() }

/// R4: `self.tag_stack.iter().position(|tag| matches!(tag.size, Known(size) if self.current_offset() >= tag.data_start + size))`
#[verifier::external_body]
fn r4_first_ended<T: EbmlSpecification>(stack: &Vec<ProcessingTag<T>>, cur: usize) -> (r: Option<usize>)
    ensures
        (match r { Some(i) => i as int, None => stack@.len() as int }) == sp_first_ended_from(stack@, cur as int, 0),
        r matches Some(i) ==> i < stack@.len(),
{ unimplemented!() }
/// R4: `self.emission_queue.extend(self.tag_stack.drain(index..).map(|t| Ok((t.tag, t.tag_start))).rev());`
#[verifier::external_body]
fn r4_drain_ends<T: EbmlSpecification>(stack: &mut Vec<ProcessingTag<T>>, queue: &mut VecDeque<Item<T>>, index: usize)
    requires index <= old(stack)@.len(),
    ensures
        final(stack)@ == old(stack)@.subrange(0, index as int),
        final(queue)@ == old(queue)@ + sp_ends_rev(old(stack)@.subrange(index as int, old(stack)@.len() as int)),
{ unimplemented!() }
/// R4: `self.tag_stack.iter().map(|p| (p.tag.get_id(), p.size)).collect()`
#[verifier::external_body]
fn r4_doc_path<T: EbmlSpecification>(stack: &Vec<ProcessingTag<T>>) -> (r: Vec<(u64, EBMLSize)>)
    ensures r@ == sp_doc_path(stack@),
{ unimplemented!() }
/// R4: `next_read.map(|r| (r.tag, r.tag_start))`
#[verifier::external_body]
fn r4_item<T: EbmlSpecification>(x: Result<ProcessingTag<T>, TagIteratorError>) -> (r: Item<T>)
    ensures r == (match x { Ok(p) => Ok::<(T, usize), TagIteratorError>((p.tag, p.tag_start)), Err(e) => Err::<(T, usize), TagIteratorError>(e) }),
{ unimplemented!() }
