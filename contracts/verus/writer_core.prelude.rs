// Specification vocabulary and assumed interfaces for the writer state machine (unit writer_core: C10, C19, C09).
global size_of usize == 8;   // ASSUMPTION: 64-bit usize

// std types that only occur inside error values: opaque to the proof
#[verifier::external_type_specification]
#[verifier::external_body]
pub struct ExIoError(std::io::Error);

// ASSUMED specification of Option::<&T>::copied (std)
pub assume_specification<'a, T: Copy> [std::option::Option::<&'a T>::copied] (o: Option<&'a T>) -> (r: Option<T>)
    ensures r == (match o { Some(x) => Some(*x), None => None });

/// big-endian value of a byte sequence
pub open spec fn sp_be(s: Seq<u8>) -> nat decreases s.len() {
    if s.len() == 0 { 0 } else { sp_be(s.subrange(0, s.len() - 1)) * 256 + s[s.len() - 1] as nat }
}
pub open spec fn pow128(n: nat) -> nat decreases n { if n == 0 { 1 } else { 128 * pow128((n - 1) as nat) } }

/// the bytes of an element id as the writer emits them: the big-endian bytes of `id` without leading zero bytes
/// (uninterpreted here; k_w_* harnesses of engine K pin the bytes for every id)
pub uninterp spec fn sp_id_bytes(id: u64) -> Seq<u8>;
/// the eight-byte "unknown size" field 01 FF FF FF FF FF FF FF
pub open spec fn sp_unknown8() -> Seq<u8> { seq![0x01u8, 0xFFu8, 0xFFu8, 0xFFu8, 0xFFu8, 0xFFu8, 0xFFu8, 0xFFu8] }
/// `f` is a size field of exactly `w` bytes that carries `n` and is not the reserved all-ones pattern
/// (contract of size_vint / size_vint_with_length — PROVED by engine K: k_size_vint, k_size_vint_with_length)
pub open spec fn sp_size_field(f: Seq<u8>, n: u64, w: int) -> bool {
    1 <= w <= 8 && f.len() == w && sp_be(f) == n + pow128(w as nat) && n + 1 < pow128(w as nat)
}
/// `n` is `b` with the header of a master (id bytes, then the size field `f`) spliced in at `s`
pub open spec fn sp_header_at(b: Seq<u8>, s: int, id: u64, n: Seq<u8>, f: Seq<u8>) -> bool {
    0 <= s <= b.len() && n == b.subrange(0, s) + sp_id_bytes(id) + f + b.subrange(s, b.len() as int)
}
/// the size field a master header must carry: the content length b.len() - s in the requested width `w`;
/// width 0 (or any width outside 1..=8) means the shortest non-reserved field
pub open spec fn sp_header_size(f: Seq<u8>, content: int, w: usize) -> bool {
    0 <= content <= u64::MAX && sp_size_field(f, content as u64, if 1 <= w <= 8 { w as int } else { f.len() as int })
}
pub open spec fn sp_prefix(a: Seq<u8>, b: Seq<u8>) -> bool { a.len() <= b.len() && b.subrange(0, a.len() as int) =~= a }

/// Model of std::io::Write (ASSUMED): the destination is the sequence of bytes accepted so far; it only grows.
pub trait Write: Sized {
    spec fn written(&self) -> Seq<u8>;
}

// R1: collapsed trait interface (EbmlSpecification<T> + EbmlTag<T> + Clone); results tied to uninterpreted spec functions.
// ASSUMPTIONS: (1) a tag value is a finite tree: the children of a Full master are smaller than the master (true of every
// owned Rust value); (2) the accessors are deterministic functions of the value.
pub trait EbmlSpecification: Sized + Clone {
    spec fn sp_type(id: u64) -> Option<TagDataType>;
    spec fn sp_id(&self) -> u64;
    spec fn sp_master(&self) -> Option<Master<Self>>;
    spec fn sp_uint(&self) -> Option<u64>;
    spec fn sp_int(&self) -> Option<i64>;
    spec fn sp_str(&self) -> Option<Seq<char>>;
    spec fn sp_bin(&self) -> Option<Seq<u8>>;
    spec fn sp_float(&self) -> Option<f64>;
    spec fn height(&self) -> nat;
    fn get_tag_data_type(id: u64) -> (r: Option<TagDataType>) ensures r == Self::sp_type(id);
    fn get_id(&self) -> (r: u64) ensures r == self.sp_id();
    fn as_master(&self) -> (r: Option<&Master<Self>>)
        ensures
            (match r { Some(m) => self.sp_master() == Some(*m), None => self.sp_master() is None }),
            r matches Some(Master::Full(c)) ==> forall|i: int| 0 <= i < c@.len() ==> (#[trigger] c@[i]).height() < self.height();
    fn as_unsigned_int(&self) -> (r: Option<&u64>) ensures (match r { Some(v) => self.sp_uint() == Some(*v), None => self.sp_uint() is None });
    fn as_signed_int(&self) -> (r: Option<&i64>) ensures (match r { Some(v) => self.sp_int() == Some(*v), None => self.sp_int() is None });
    fn as_utf8(&self) -> (r: Option<&str>) ensures (match r { Some(v) => self.sp_str() == Some(v@), None => self.sp_str() is None });
    fn as_binary(&self) -> (r: Option<&[u8]>) ensures (match r { Some(v) => self.sp_bin() == Some(v@), None => self.sp_bin() is None });
    fn as_float(&self) -> (r: Option<&f64>) ensures (match r { Some(v) => self.sp_float() == Some(*v), None => self.sp_float() is None });
}
/// "internally consistent specification" (documented precondition of write(); C18 establishes it for derived specifications):
/// the accessor that matches the declared type of the tag's id answers, for the tag and for every descendant
pub open spec fn sp_consistent<T: EbmlSpecification>(t: &T) -> bool {
    match T::sp_type(t.sp_id()) {
        Some(TagDataType::Master) => t.sp_master() is Some,
        Some(TagDataType::UnsignedInt) => t.sp_uint() is Some,
        Some(TagDataType::Integer) => t.sp_int() is Some,
        Some(TagDataType::Utf8) => t.sp_str() is Some,
        Some(TagDataType::Binary) => t.sp_bin() is Some,
        Some(TagDataType::Float) => t.sp_float() is Some,
        None => t.sp_bin() is Some,
    }
}
/// documented precondition of the writer ("internally consistent specification"): every value of the tag type is consistent
pub open spec fn sp_all_consistent<T: EbmlSpecification>() -> bool { forall|t: &T| #[trigger] sp_consistent(t) }
/// the call closes the innermost open master: the tag is a master End
pub open spec fn sp_is_end<T: EbmlSpecification>(t: &T) -> bool { T::sp_type(t.sp_id()) == Some(TagDataType::Master) && t.sp_master() matches Some(Master::End) }

pub type OpenTag = (u64, EBMLSize, usize);
pub open spec fn sp_any_known(s: Seq<OpenTag>) -> bool { exists|i: int| 0 <= i < s.len() && (#[trigger] s[i]).1 is Known }
/// representation invariant of the open-master stack against the working buffer: every recorded start lies inside
/// the buffer and the starts never decrease towards the top of the stack
pub open spec fn sp_stack_wf(s: Seq<OpenTag>, len: int) -> bool {
    forall|i: int| 0 <= i < s.len() && (#[trigger] s[i]).1 is Known ==> {
        &&& s[i].1->Known_0 <= len
        &&& forall|j: int| i < j < s.len() && (#[trigger] s[j]).1 is Known ==> s[i].1->Known_0 <= s[j].1->Known_0
    }
}
pub open spec fn sp_tags_prefix(a: Seq<OpenTag>, b: Seq<OpenTag>) -> bool { a.len() <= b.len() && b.subrange(0, a.len() as int) =~= a }

// ---- the writer as a function (C09): what each call does to the abstract state, for runs without I/O errors -------------

/// ASSUMPTION (determinism of pure Rust functions): the size field size_vint_with_length::<w>(n) (w in 1..=8) or
/// size_vint(n) (w = 0) returns, and whether it returns one; engine K proves what these bytes are (sp_size_field)
pub uninterp spec fn sp_size_enc(n: u64, w: usize) -> Seq<u8>;
pub uninterp spec fn sp_size_ok(n: u64, w: usize) -> bool;
/// likewise for 8u8.as_vint_with_length::<w>()
pub uninterp spec fn sp_vint8_enc(w: usize) -> Seq<u8>;
pub uninterp spec fn sp_vint8_ok(w: usize) -> bool;
/// likewise the bytes write_unsigned_int_tag::<w> / write_signed_int_tag::<w> append (None: the call fails); engine K
/// (k_w_uint_*, k_w_int_*) proves what they are for every value, id and width
pub uninterp spec fn sp_uint_elem(id: u64, v: u64, w: usize) -> Option<Seq<u8>>;
pub uninterp spec fn sp_int_elem(id: u64, v: i64, w: usize) -> Option<Seq<u8>>;
pub open spec fn sp_bytes_elem(id: u64, data: Seq<u8>, w: usize) -> Option<Seq<u8>> {
    if sp_size_ok(data.len() as u64, w) { Some(sp_id_bytes(id) + sp_size_enc(data.len() as u64, w) + data) } else { None }
}
pub open spec fn sp_float_elem(id: u64, v: f64, w: usize) -> Option<Seq<u8>> {
    if w == 0 { Some(sp_id_bytes(id) + seq![0x88u8] + sp_f64_be(v)) } else if sp_vint8_ok(w) { Some(sp_id_bytes(id) + sp_vint8_enc(w) + sp_f64_be(v)) } else { None }
}
/// abstract state of a writer: bytes handed over, bytes pending, open masters
pub struct WS { pub out: Seq<u8>, pub pending: Seq<u8>, pub stack: Seq<OpenTag> }
/// a width outside 1..=8 stored for a master means "shortest"
pub open spec fn sp_wn(w: usize) -> usize { if 1 <= w <= 8 { w } else { 0 } }
/// closing the innermost master `id`
pub open spec fn sp_end(s: WS, id: u64) -> Option<WS> {
    if s.stack.len() == 0 || s.stack.last().0 != id { None }
    else if s.stack.last().1 is Unknown { Some(WS { out: s.out, pending: s.pending, stack: s.stack.drop_last() }) }
    else {
        let st = s.stack.last().1->Known_0 as int;
        let n = (s.pending.len() - st) as u64;
        let w = sp_wn(s.stack.last().2);
        if sp_size_ok(n, w) { Some(WS { out: s.out, pending: s.pending.subrange(0, st) + sp_id_bytes(id) + sp_size_enc(n, w) + s.pending.subrange(st, s.pending.len() as int), stack: s.stack.drop_last() }) } else { None }
    }
}
/// everything pending is handed over unless a known-size master is open
pub open spec fn sp_flush(s: WS) -> WS {
    if sp_any_known(s.stack) { s } else { WS { out: s.out + s.pending, pending: Seq::<u8>::empty(), stack: s.stack } }
}
pub open spec fn sp_append(s: WS, e: Option<Seq<u8>>) -> Option<WS> {
    match e { Some(b) => Some(sp_flush(WS { out: s.out, pending: s.pending + b, stack: s.stack })), None => None }
}
/// the verdict of validate_tag_path on (id, open masters) — unit path_matcher proves what it computes
pub uninterp spec fn sp_valid_path<T: EbmlSpecification>(id: u64, stack: Seq<OpenTag>) -> bool;
/// is_vint(id) — engine K (C15) proves what it computes
pub uninterp spec fn sp_is_vint(id: u64) -> bool;
pub open spec fn sp_should_validate<T: EbmlSpecification>(t: &T) -> bool {
    T::sp_type(t.sp_id()) is Some && !sp_is_end(t)
}
/// write_advanced(tag, options) as a function of the state; `w` = requested width (0 = none), `unk` = unknown-size start.
/// None = rejected (the state is then unchanged, C19).
pub open spec fn sp_write<T: EbmlSpecification>(s: WS, t: &T, w: usize, unk: bool) -> Option<WS>
    decreases t.height(), 2nat, 0nat
{
    let id = t.sp_id();
    if unk {
        if T::sp_type(id) == Some(TagDataType::Master) { Some(WS { out: s.out, pending: s.pending + sp_id_bytes(id) + sp_unknown8(), stack: s.stack.push((id, EBMLSize::Unknown, 0usize)) }) } else { None }
    } else if sp_should_validate(t) && !sp_valid_path::<T>(id, s.stack) { None }
    else { sp_explicit(s, t, w) }
}
/// write_explicit_sized::<w>(tag) as a function of the state
pub open spec fn sp_explicit<T: EbmlSpecification>(s: WS, t: &T, w: usize) -> Option<WS>
    decreases t.height(), 1nat, 0nat
{
    let id = t.sp_id();
    match T::sp_type(id) {
        Some(TagDataType::UnsignedInt) => if t.sp_uint() is Some { sp_append(s, sp_uint_elem(id, t.sp_uint()->Some_0, w)) } else { None },
        Some(TagDataType::Integer) => if t.sp_int() is Some { sp_append(s, sp_int_elem(id, t.sp_int()->Some_0, w)) } else { None },
        Some(TagDataType::Utf8) => if t.sp_str() is Some { sp_append(s, sp_bytes_elem(id, sp_utf8(t.sp_str()->Some_0), w)) } else { None },
        Some(TagDataType::Binary) => if t.sp_bin() is Some { sp_append(s, sp_bytes_elem(id, t.sp_bin()->Some_0, w)) } else { None },
        Some(TagDataType::Float) => if t.sp_float() is Some { sp_append(s, sp_float_elem(id, t.sp_float()->Some_0, w)) } else { None },
        Some(TagDataType::Master) => match t.sp_master() {
            Some(Master::Start) => Some(sp_flush(sp_start(s, id, w))),
            Some(Master::End) => match sp_end(s, id) { Some(s2) => Some(sp_flush(s2)), None => None },
            Some(Master::Full(children)) => {
                let s1 = sp_start(s, id, w);
                match sp_children(s1, children@, 0, s1.stack.len() as int, t.height()) {
                    Some(s2) => match sp_end(s2, id) { Some(s3) => Some(sp_flush(s3)), None => None },
                    None => None,
                }
            },
            None => None,
        },
        None => if !sp_is_vint(id) || t.sp_bin() is None { None } else { sp_append(s, sp_bytes_elem(id, t.sp_bin()->Some_0, w)) },
    }
}
/// opening a known-size master: its header is back-patched at the current end of the pending bytes, in width `w`
pub open spec fn sp_start(s: WS, id: u64, w: usize) -> WS {
    WS { out: s.out, pending: s.pending, stack: s.stack.push((id, EBMLSize::Known(s.pending.len() as usize), w)) }
}
/// the width write_advanced passes on for the requested size_byte_length
pub open spec fn sp_req_width(o: Option<usize>) -> usize { match o { Some(k) => if 1 <= k <= 8 { k } else { 0 }, None => 0 } }
/// the children of a Full master, written one after the other with write(); a child may not close the master itself
pub open spec fn sp_children<T: EbmlSpecification>(s: WS, ch: Seq<T>, i: int, count: int, h: nat) -> Option<WS>
    decreases h, 0nat, ch.len() - i
{
    if i < 0 || i >= ch.len() { Some(s) }
    else if ch[i].height() >= h { None }   // never the case (a tag value is a finite tree); makes the definition well-founded
    else if s.stack.len() == count && ch[i].sp_master() matches Some(Master::End) { None }
    else { match sp_write(s, &ch[i], 0, false) { Some(s2) => sp_children(s2, ch, i + 1, count, h), None => None } }
}
/// C09, flat presentation: the same children written one after the other at top level
pub open spec fn sp_seq<T: EbmlSpecification>(s: WS, ch: Seq<T>, i: int) -> Option<WS>
    decreases ch.len() - i
{
    if i < 0 || i >= ch.len() { Some(s) }
    else { match sp_write(s, &ch[i], 0, false) { Some(s2) => sp_seq(s2, ch, i + 1), None => None } }
}

// ---- R4 helpers: expressions outside this Verus' subset, outlined with ASSUMED contracts -----------------------------

/// `buf.extend(id.to_be_bytes().iter().skip_while(|&v| *v == 0u8))` — appends the id bytes (iterator adapters + closure)
#[verifier::external_body]
fn r4_extend_id(buf: &mut Vec<u8>, id: u64)
    ensures final(buf)@ == old(buf)@ + sp_id_bytes(id),
{ unimplemented!() }
/// `buf.extend_from_slice(&(u64::MAX >> 7).to_be_bytes())`
#[verifier::external_body]
fn r4_extend_unknown8(buf: &mut Vec<u8>)
    ensures final(buf)@ == old(buf)@ + sp_unknown8(),
{ unimplemented!() }
/// `len.checked_sub(start).expect(..).try_into().expect(..)` — `requires start <= len`: Verus must prove the expect cannot fire
#[verifier::external_body]
fn r4_len_minus(len: usize, start: usize) -> (r: u64)
    requires start <= len,
    ensures r == len - start,
{ unimplemented!() }
/// `size_vint_with_length::<N>(size).map_err(|e| TagWriterError::TagSizeError(e.to_string()))?` without the `?`
#[verifier::external_body]
fn r4_size_wl<const N: usize>(size: u64) -> (r: Result<[u8; N], TagWriterError>)
    ensures
        r matches Ok(f) ==> (1 <= N <= 8 ==> sp_header_size(f@, size as int, N)) && f@ == sp_size_enc(size, N),
        r matches Err(e) ==> e is TagSizeError,
        r is Ok <==> sp_size_ok(size, N),
{ unimplemented!() }
/// `size_vint(size).map_err(|e| TagWriterError::TagSizeError(e.to_string()))?` without the `?`
#[verifier::external_body]
fn r4_size_min(size: u64) -> (r: Result<Vec<u8>, TagWriterError>)
    ensures
        r matches Ok(f) ==> sp_header_size(f@, size as int, 0) && f@ == sp_size_enc(size, 0),
        r matches Err(e) ==> e is TagSizeError,
        r is Ok <==> sp_size_ok(size, 0),
        size < 0xFF_FFFF_FFFF_FFFF ==> r is Ok,   // k_size_vint: Err exactly for n >= 2^56 - 1
{ unimplemented!() }
/// `buf.splice(start..start, id.to_be_bytes().iter().skip_while(|&v| *v == 0u8).chain(size_vint.iter()).copied());`
#[verifier::external_body]
fn r4_splice_header(buf: &mut Vec<u8>, start: usize, id: u64, size_vint: &[u8])
    requires start <= old(buf)@.len(),
    ensures sp_header_at(old(buf)@, start as int, id, final(buf)@, size_vint@),
{ unimplemented!() }
/// `dest.write_all(buf.drain(..).as_slice()).map_err(|source| TagWriterError::WriteError { source })?` without the `?`.
/// ASSUMED contract (std): the Drain temporary empties `buf` at the end of the statement whatever the result;
/// write_all hands over all bytes on Ok and some prefix of them on Err.
#[verifier::external_body]
fn r4_write_all_drain<W: Write>(dest: &mut W, buf: &mut Vec<u8>) -> (r: Result<(), TagWriterError>)
    ensures
        final(buf)@.len() == 0,
        r is Ok ==> final(dest).written() == old(dest).written() + old(buf)@,
        r matches Err(e) ==> e is WriteError && sp_prefix(old(dest).written(), final(dest).written()) && sp_prefix(final(dest).written(), old(dest).written() + old(buf)@),
{ unimplemented!() }
/// `dest.flush().map_err(|source| TagWriterError::WriteError { source })` — ASSUMED (std): flush adds no bytes
#[verifier::external_body]
fn r4_flush_dest<W: Write>(dest: &mut W) -> (r: Result<(), TagWriterError>)
    ensures
        final(dest).written() == old(dest).written(),
        r matches Err(e) ==> e is WriteError,
{ unimplemented!() }
/// `!open_tags.iter().any(|t| matches!(t.1, Known(_)))` (iterator adapter + closure)
#[verifier::external_body]
fn r4_no_known(open_tags: &Vec<OpenTag>) -> (r: bool)
    ensures r == !sp_any_known(open_tags@),
{ unimplemented!() }
/// `open_tags.last().map(|t| t.0)`
#[verifier::external_body]
fn r4_last_id(open_tags: &Vec<OpenTag>) -> (r: Option<u64>)
    ensures r == (if open_tags@.len() == 0 { None::<u64> } else { Some(open_tags@[open_tags@.len() - 1].0) }),
{ unimplemented!() }
/// `x.unwrap_or_else(|| panic!("Bad specification implementation: ..."))` — `requires x is Some`: the documented panic of an
/// internally inconsistent specification must be excluded by sp_consistent
#[verifier::external_body]
fn r4_expect<T>(x: Option<T>, tag_id: u64) -> (r: T)
    requires x is Some,
    ensures Some(r) == x,
{ unimplemented!() }
/// the error value `TagWriterError::TagSizeError(format!("Cannot write an unknown size for tag of type {tag_type:?}"))`
#[verifier::external_body]
fn r4_unknown_size_error(tag_type: Option<TagDataType>) -> (r: TagWriterError)
    ensures r is TagSizeError,
{ unimplemented!() }
/// the right-hand side of `let should_validate = tag_type.is_some() && (!matches!(tag_type, Some(Master)) || !matches!(tag.as_master().unwrap_or_else(|| panic!(..)), Master::End))`
/// (closure + panic): C11 decides what validation answers; for the frame argument of this unit it is an arbitrary pure boolean.
/// `requires sp_consistent(tag)`: the documented panic of an inconsistent specification is excluded
#[verifier::external_body]
fn r4_should_validate<T: EbmlSpecification>(tag: &T, tag_id: u64, tag_type: Option<TagDataType>) -> (r: bool)
    requires tag_type == T::sp_type(tag_id), tag_id == tag.sp_id(), sp_consistent(tag),
    ensures r == sp_should_validate(tag),   // transliteration of the outlined expression
{ unimplemented!() }
/// `validate_tag_path::<TSpec>(tag_id, open_tags.iter().map(|t| (t.0, Known(0), t.2)))` — pure (unit path_matcher proves what it computes)
#[verifier::external_body]
fn r4_validate<T: EbmlSpecification>(tag_id: u64, open_tags: &Vec<OpenTag>) -> (r: bool)
    ensures r == sp_valid_path::<T>(tag_id, open_tags@),
{ unimplemented!() }
/// the error value `TagWriterError::UnexpectedTag { tag_id, current_path: open_tags.iter().map(|t| t.0).collect() }`
#[verifier::external_body]
fn r4_unexpected_tag(tag_id: u64, open_tags: &Vec<OpenTag>) -> (r: TagWriterError)
    ensures r is UnexpectedTag,
{ unimplemented!() }
/// `is_vint(tag_id)` (tools.rs; C15 proves it by engine K) — a pure boolean here
#[verifier::external_body]
fn is_vint(id: u64) -> (r: bool)
    ensures r == sp_is_vint(id),
{ unimplemented!() }
/// `n.try_into().expect("couldn't convert usize to u64")` — cannot fail on a 64-bit target (ASSUMPTION: usize is 64 bits)
#[verifier::external_body]
fn r4_usize_to_u64(n: usize) -> (r: u64)
    ensures r == n,
{ unimplemented!() }
/// the UTF-8 bytes of a string (uninterpreted: the payload is whatever `str::as_bytes` returns)
pub uninterp spec fn sp_utf8(s: Seq<char>) -> Seq<u8>;
/// `data.as_bytes()` (std)
#[verifier::external_body]
fn r4_str_bytes(data: &str) -> (r: &[u8])
    ensures r@ == sp_utf8(data@),
{ unimplemented!() }
/// the eight big-endian bytes of a float (uninterpreted: whatever `f64::to_be_bytes` returns; C16 / engine K pins them)
pub uninterp spec fn sp_f64_be(v: f64) -> Seq<u8>;
/// `buf.extend_from_slice(&data.to_be_bytes())` for a float payload
#[verifier::external_body]
fn r4_extend_f64(buf: &mut Vec<u8>, data: &f64)
    ensures final(buf)@ == old(buf)@ + sp_f64_be(*data),
{ unimplemented!() }
/// `8u8.as_vint_with_length::<N>().map_err(|e| TagWriterError::TagSizeError(e.to_string()))` — the size field "8" in N bytes
/// (tools.rs as_vint_with_length: contract PROVED by engine K, k_as_vint_with_length)
#[verifier::external_body]
fn r4_vint8_wl<const N: usize>() -> (r: Result<[u8; N], TagWriterError>)
    ensures
        r matches Ok(f) ==> (1 <= N <= 8 ==> sp_header_size(f@, 8, N)) && f@ == sp_vint8_enc(N),
        r matches Err(e) ==> e is TagSizeError,
        r is Ok <==> sp_vint8_ok(N),
{ unimplemented!() }

// ---- C09: one Full item == Start, the children, End (lemmas over the specification the real writer is proved to implement) ----

/// if the children are accepted inside a Full master, writing them one after the other at top level goes through the same states
pub proof fn lemma_children_seq<T: EbmlSpecification>(s: WS, ch: Seq<T>, i: int, count: int, h: nat)
    requires sp_children(s, ch, i, count, h) is Some, 0 <= i,
    ensures sp_seq(s, ch, i) == sp_children(s, ch, i, count, h),
    decreases ch.len() - i
{
    if i < ch.len() {
        let s2 = sp_write(s, &ch[i], 0, false);
        assert(s2 is Some);
        lemma_children_seq(s2->Some_0, ch, i + 1, count, h);
    }
}
/// C09: from every state, whenever write(Full(children), width w) is accepted, so are write(Start, width w), each child
/// in turn, and write(End) (whatever width is passed with End) — and they leave byte for byte the same state
/// (destination bytes, pending bytes, open masters).
pub proof fn lemma_full_equals_flat<T: EbmlSpecification>(s: WS, full: &T, start: &T, end: &T, w: usize, w_end: usize)
    requires
        T::sp_type(full.sp_id()) == Some(TagDataType::Master),
        start.sp_id() == full.sp_id(), end.sp_id() == full.sp_id(),
        full.sp_master() is Some, full.sp_master()->Some_0 is Full,
        start.sp_master() == Some(Master::<T>::Start), end.sp_master() == Some(Master::<T>::End),
        sp_write(s, full, w, false) is Some,
    ensures
        sp_write(s, start, w, false) is Some,
        sp_seq(sp_write(s, start, w, false)->Some_0, full.sp_master()->Some_0->Full_0@, 0) is Some,
        sp_write(sp_seq(sp_write(s, start, w, false)->Some_0, full.sp_master()->Some_0->Full_0@, 0)->Some_0, end, w_end, false) == sp_write(s, full, w, false),
{
    let id = full.sp_id();
    let ch = full.sp_master()->Some_0->Full_0@;
    let s1 = sp_start(s, id, w);
    assert(sp_should_validate(full) && sp_should_validate(start) && !sp_should_validate(end));
    assert(sp_write(s, full, w, false) == sp_explicit(s, full, w));
    assert(sp_write(s, start, w, false) == sp_explicit(s, start, w));
    // a known-size master is open in s1: nothing is flushed by the Start
    assert(s1.stack[s1.stack.len() - 1].1 is Known);
    assert(sp_any_known(s1.stack));
    assert(sp_explicit(s, start, w) == Some(s1));
    let c = sp_children(s1, ch, 0, s1.stack.len() as int, full.height());
    assert(c is Some);
    lemma_children_seq(s1, ch, 0, s1.stack.len() as int, full.height());
    let s2 = c->Some_0;
    assert(sp_write(s2, end, w_end, false) == sp_explicit(s2, end, w_end));
}
