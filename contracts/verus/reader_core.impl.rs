    // ---- ghost state of the buffer layer (DESIGN.md §3 "iterator abstract state") ----
    /// representation invariant
    pub closed spec fn wf(&self) -> bool {
        &&& self.internal_buffer_position <= self.buffered_byte_length <= self.buffer@.len()
        &&& self.buffer@.len() <= 0x1000_0000_0000_0000
        &&& sp_off(self.buffer_offset) + self.buffered_byte_length == self.source.consumed()
        &&& self.source.consumed() + self.source.remaining().len() <= usize::MAX
    }
    /// absolute stream offset of the parse cursor
    pub closed spec fn cursor(&self) -> int { sp_off(self.buffer_offset) + self.internal_buffer_position }
    /// buffered-but-unconsumed bytes ++ bytes the source has yet to deliver
    pub closed spec fn future(&self) -> Seq<u8> {
        self.buffer@.subrange(self.internal_buffer_position as int, self.buffered_byte_length as int) + self.source.remaining()
    }
    /// the valid (actually read) bytes after the cursor
    pub closed spec fn avail(&self) -> Seq<u8> { self.buffer@.subrange(self.internal_buffer_position as int, self.buffered_byte_length as int) }
    /// fields the buffer layer never touches
    pub closed spec fn frame(&self, o: &Self) -> bool {
        self.allowed_errors == o.allowed_errors && self.max_allowed_tag_size == o.max_allowed_tag_size && self.tag_stack == o.tag_stack && self.has_determined_doc_path == o.has_determined_doc_path
        && self.emission_queue == o.emission_queue && self.tag_ids_to_buffer == o.tag_ids_to_buffer && self.emit_master_end_when_eof == o.emit_master_end_when_eof && self.last_emitted_tag_offset == o.last_emitted_tag_offset
    }
    /// what the header / tag layer leaves alone of the upper layer: the emission queue, the buffered-id set and the EOF switch
    /// never change; the stack of open masters changes only when the first element of the stream fixes the position in the
    /// document (implied ancestors are seeded)
    pub closed spec fn up_frame(&self, o: &Self) -> bool {
        &&& self.emission_queue == o.emission_queue && self.tag_ids_to_buffer == o.tag_ids_to_buffer && self.emit_master_end_when_eof == o.emit_master_end_when_eof && self.last_emitted_tag_offset == o.last_emitted_tag_offset
        &&& (self.tag_stack@ == o.tag_stack@ || !o.has_determined_doc_path)
    }
    /// everything but the stack of open masters and the emission queue is the same
    pub closed spec fn lower_eq(&self, o: &Self) -> bool {
        &&& self.source == o.source && self.buffer == o.buffer && self.buffer_offset == o.buffer_offset && self.buffered_byte_length == o.buffered_byte_length
        &&& self.internal_buffer_position == o.internal_buffer_position && self.allowed_errors == o.allowed_errors && self.max_allowed_tag_size == o.max_allowed_tag_size
        &&& self.has_determined_doc_path == o.has_determined_doc_path && self.tag_ids_to_buffer == o.tag_ids_to_buffer && self.emit_master_end_when_eof == o.emit_master_end_when_eof
        &&& self.last_emitted_tag_offset == o.last_emitted_tag_offset
    }
    pub closed spec fn up_stack(&self) -> Seq<ProcessingTag<TSpec>> { self.tag_stack@ }
    pub closed spec fn up_queue(&self) -> Seq<Item<TSpec>> { self.emission_queue@ }
    pub closed spec fn up_eof_close(&self) -> bool { self.emit_master_end_when_eof }
    pub closed spec fn up_buffered(&self, id: u64) -> bool { self.tag_ids_to_buffer@.contains(id) }
    pub closed spec fn up_positioned(&self) -> bool { self.has_determined_doc_path }
    /// C06 / C07 / C12 / C03, per step: what one read_next does to the stack of open masters and the emission queue.
    /// `r` is what the tag layer returned (None = end of input); `s_read` the stack the tag layer left (the stack after
    /// closing by position, unless the very first element seeded the implied ancestors).
    pub closed spec fn next_post(&self, o: &Self, r: Option<Result<ProcessingTag<TSpec>, TagIteratorError>>, s_read: Seq<ProcessingTag<TSpec>>) -> bool {
        let i0 = sp_first_ended_from(o.up_stack(), o.cursor(), 0);
        let s1 = o.up_stack().subrange(0, i0);
        let q1 = o.up_queue() + sp_ends_rev(o.up_stack().subrange(i0, o.up_stack().len() as int));
        &&& (s_read == s1 || !o.up_positioned())
        &&& match r {
                None => {
                    &&& self.cursor() == o.cursor() && self.future() == o.future() && self.avail().len() == 0 && self.zr() > o.zr()
                    &&& if o.up_eof_close() { self.up_stack().len() == 0 && self.up_queue() =~= q1 + sp_ends_rev(s_read) } else { self.up_stack() =~= s_read && self.up_queue() =~= q1 }
                },
                Some(Err(e)) => self.up_stack() =~= s_read && self.up_queue() =~= q1.push(Err(e)) && (e is ReadError || self.tag_post(o, Err(e))),
                Some(Ok(pt)) => {
                    let ol = sp_open_len::<TSpec>(pt.tag.sp_id(), sp_doc_path(s_read));
                    let s2 = s_read.subrange(0, ol);
                    let q2 = q1 + sp_ends_rev(s_read.subrange(ol, s_read.len() as int));
                    &&& 0 <= ol <= s_read.len()
                    &&& if pt.tag.sp_master() matches Some(Master::Start) {
                            // a buffered master is handed to buffer_master (bounded layer, C08); otherwise:
                            !o.up_buffered(pt.tag.sp_id()) ==> {
                                &&& self.tag_post(o, Ok(pt))
                                &&& self.up_stack() =~= s2.push(ProcessingTag { tag: TSpec::sp_mk_end(pt.tag.sp_id())->Some_0, size: pt.size, tag_start: pt.tag_start, data_start: pt.data_start })
                                &&& self.up_queue() =~= q2.push(Ok((pt.tag, pt.tag_start)))
                            }
                        } else {
                            self.tag_post(o, Ok(pt)) && self.up_stack() =~= s2 && self.up_queue() =~= q2.push(Ok((pt.tag, pt.tag_start)))
                        }
                },
            }
    }

    /// configuration (tolerance mask, size limit)
    pub closed spec fn cfg(&self) -> (u8, Option<usize>) { (self.allowed_errors, self.max_allowed_tag_size) }
    /// number of source reads that returned Ok(0) so far
    pub closed spec fn zr(&self) -> nat { self.source.zero_reads() }
    /// C03 / C12, per tag: the relation between the state before (o) and after (self) reading one tag and its result.
    /// Ok: the tag, its offsets and the bytes consumed are exactly what the bytes at the cursor encode (header = sp_header,
    /// element = sp_decode of the payload bytes); a master consumes its header only.  Err(UnexpectedEOF) with a size: the
    /// error names the tag's start, id and declared size, carries exactly the bytes that were available, and a source read
    /// returned Ok(0).
    pub closed spec fn tag_post(&self, o: &Self, r: Result<ProcessingTag<TSpec>, TagIteratorError>) -> bool {
        let f = o.future();
        &&& r matches Ok(pt) ==> {
                let hl = pt.data_start - pt.tag_start;
                let ty = TSpec::sp_type(sp_header_id(f));
                &&& pt.tag_start == o.cursor() && 2 <= hl <= 16
                &&& sp_header(f, sp_header_id(f), pt.size, hl)
                &&& (ty == Some(TagDataType::Master) ==> self.cursor() == pt.data_start && self.future() =~= f.subrange(hl, f.len() as int) && Some(pt.tag) == TSpec::sp_mk_start(sp_header_id(f)))
                &&& (ty != Some(TagDataType::Master) ==> {
                        &&& pt.size is Known && hl + pt.size->Known_0 <= f.len()
                        &&& self.cursor() == pt.data_start + pt.size->Known_0
                        &&& self.future() =~= f.subrange(hl + pt.size->Known_0, f.len() as int)
                        &&& Some(pt.tag) == sp_decode::<TSpec>(ty, sp_header_id(f), f.subrange(hl, hl + pt.size->Known_0))
                    })
            }
        &&& r matches Err(TagIteratorError::UnexpectedEOF { tag_start, tag_id, tag_size, partial_data }) ==> (tag_size is Some ==> {
                &&& tag_start == o.cursor() && tag_id == Some(sp_header_id(f))
                &&& self.zr() > o.zr()
                &&& partial_data is Some && partial_data->Some_0@ =~= self.avail()
                &&& sp_header(f, sp_header_id(f), EBMLSize::Known(tag_size->Some_0), self.cursor() - o.cursor())
                &&& self.future() =~= f.subrange(self.cursor() - o.cursor(), f.len() as int) && self.avail().len() < tag_size->Some_0
            })
    }
