    // ---- ghost state of the buffer layer (DESIGN.md §3 "iterator abstract state") ----
    /// representation invariant
    pub closed spec fn wf(&self) -> bool {
        &&& self.internal_buffer_position <= self.buffered_byte_length <= self.buffer@.len()
        &&& self.buffer@.len() <= 0x1000_0000_0000_0000
        &&& sp_off(self.buffer_offset) + self.buffered_byte_length == self.source.consumed()
        &&& self.source.consumed() + self.source.remaining().len() <= usize::MAX
    }
    /// absolute stream offset of the parse cursor
    pub closed spec fn cursor(&self) -> int { sp_off(self.buffer_offset) + self.internal_buffer_position }
    /// buffered-but-unconsumed bytes ++ bytes the source has yet to deliver
    pub closed spec fn future(&self) -> Seq<u8> {
        self.buffer@.subrange(self.internal_buffer_position as int, self.buffered_byte_length as int) + self.source.remaining()
    }
    /// the valid (actually read) bytes after the cursor
    pub closed spec fn avail(&self) -> Seq<u8> { self.buffer@.subrange(self.internal_buffer_position as int, self.buffered_byte_length as int) }
    /// fields the buffer layer never touches
    pub closed spec fn frame(&self, o: &Self) -> bool {
        self.allowed_errors == o.allowed_errors && self.max_allowed_tag_size == o.max_allowed_tag_size && self.tag_stack == o.tag_stack && self.has_determined_doc_path == o.has_determined_doc_path
    }
    /// configuration (tolerance mask, size limit)
    pub closed spec fn cfg(&self) -> (u8, Option<usize>) { (self.allowed_errors, self.max_allowed_tag_size) }
    /// number of source reads that returned Ok(0) so far
    pub closed spec fn zr(&self) -> nat { self.source.zero_reads() }
