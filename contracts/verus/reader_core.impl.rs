    // ---- ghost state of the buffer layer (DESIGN.md §3 "iterator abstract state") ----
    /// representation invariant
    pub closed spec fn wf(&self) -> bool {
        &&& self.internal_buffer_position <= self.buffered_byte_length <= self.buffer@.len()
        &&& self.buffer@.len() <= 0x1000_0000_0000_0000
        &&& sp_off(self.buffer_offset) + self.buffered_byte_length == self.source.consumed()
        &&& self.source.consumed() + self.source.remaining().len() <= usize::MAX
    }
    /// absolute stream offset of the parse cursor
    pub closed spec fn cursor(&self) -> int { sp_off(self.buffer_offset) + self.internal_buffer_position }
    /// buffered-but-unconsumed bytes ++ bytes the source has yet to deliver
    pub closed spec fn future(&self) -> Seq<u8> {
        self.buffer@.subrange(self.internal_buffer_position as int, self.buffered_byte_length as int) + self.source.remaining()
    }
    /// the valid (actually read) bytes after the cursor
    pub closed spec fn avail(&self) -> Seq<u8> { self.buffer@.subrange(self.internal_buffer_position as int, self.buffered_byte_length as int) }
    /// fields the buffer layer never touches
    pub closed spec fn frame(&self, o: &Self) -> bool {
        self.allowed_errors == o.allowed_errors && self.max_allowed_tag_size == o.max_allowed_tag_size && self.tag_stack == o.tag_stack && self.has_determined_doc_path == o.has_determined_doc_path
    }
    /// configuration (tolerance mask, size limit)
    pub closed spec fn cfg(&self) -> (u8, Option<usize>) { (self.allowed_errors, self.max_allowed_tag_size) }
    /// number of source reads that returned Ok(0) so far
    pub closed spec fn zr(&self) -> nat { self.source.zero_reads() }
    /// C03 / C12, per tag: the relation between the state before (o) and after (self) reading one tag and its result.
    /// Ok: the tag, its offsets and the bytes consumed are exactly what the bytes at the cursor encode (header = sp_header,
    /// element = sp_decode of the payload bytes); a master consumes its header only.  Err(UnexpectedEOF) with a size: the
    /// error names the tag's start, id and declared size, carries exactly the bytes that were available, and a source read
    /// returned Ok(0).
    pub closed spec fn tag_post(&self, o: &Self, r: Result<ProcessingTag<TSpec>, TagIteratorError>) -> bool {
        let f = o.future();
        &&& r matches Ok(pt) ==> {
                let hl = pt.data_start - pt.tag_start;
                let ty = TSpec::sp_type(sp_header_id(f));
                &&& pt.tag_start == o.cursor() && 2 <= hl <= 16
                &&& sp_header(f, sp_header_id(f), pt.size, hl)
                &&& (ty == Some(TagDataType::Master) ==> self.cursor() == pt.data_start && self.future() =~= f.subrange(hl, f.len() as int) && Some(pt.tag) == TSpec::sp_mk_start(sp_header_id(f)))
                &&& (ty != Some(TagDataType::Master) ==> {
                        &&& pt.size is Known && hl + pt.size->Known_0 <= f.len()
                        &&& self.cursor() == pt.data_start + pt.size->Known_0
                        &&& self.future() =~= f.subrange(hl + pt.size->Known_0, f.len() as int)
                        &&& Some(pt.tag) == sp_decode::<TSpec>(ty, sp_header_id(f), f.subrange(hl, hl + pt.size->Known_0))
                    })
            }
        &&& r matches Err(TagIteratorError::UnexpectedEOF { tag_start, tag_id, tag_size, partial_data }) ==> (tag_size is Some ==> {
                &&& tag_start == o.cursor() && tag_id == Some(sp_header_id(f))
                &&& self.zr() > o.zr()
                &&& partial_data is Some && partial_data->Some_0@ =~= self.avail()
                &&& sp_header(f, sp_header_id(f), EBMLSize::Known(tag_size->Some_0), self.cursor() - o.cursor())
                &&& self.future() =~= f.subrange(self.cursor() - o.cursor(), f.len() as int) && self.avail().len() < tag_size->Some_0
            })
    }
