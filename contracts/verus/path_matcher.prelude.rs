// Specification vocabulary for the hierarchy matcher (DESIGN.md §3), derived from the statements of
// C11 / C07 — not from the code.  Everything below is ghost (spec) code, a trait INTERFACE, or an
// R4 helper declaration; the executable functions follow, extracted verbatim from /repo.

// R1: the trait `EbmlSpecification<T: EbmlSpecification<T> + EbmlTag<T> + Clone>` is declared here in
// collapsed form (the self-bounded parameter crashes this Verus, DESIGN §1).  Only the two methods the
// matcher calls are declared; their results are tied to uninterpreted spec functions, i.e. the proof
// holds for EVERY specification.
pub trait EbmlSpecification: Sized {
    spec fn sp_type(id: u64) -> Option<TagDataType>;
    spec fn sp_path(id: u64) -> Seq<PathPart>;
    fn get_tag_data_type(id: u64) -> (r: Option<TagDataType>) ensures r == Self::sp_type(id);
    fn get_path_by_id(id: u64) -> (r: &'static [PathPart]) ensures r@ == Self::sp_path(id);
}

// R4 helper: `a == b` on slices of a derived-PartialEq enum is uninterpreted in this Verus; the
// expression is outlined into this helper whose contract (structural equality) is ASSUMED.
#[verifier::external_body]
fn r4_slice_eq(a: &[PathPart], b: &[PathPart]) -> (r: bool)
    ensures r == (a@ == b@)
{ a == b }

pub open spec fn sp_is_parent<T: EbmlSpecification>(cur: u64, test: u64) -> bool {
    exists|i: int| 0 <= i < T::sp_path(cur).len() && T::sp_path(cur)[i] == PathPart::Id(test)
}
/// C07: `test` ends an open unknown-size master `cur`: a new instance of one of its ancestors, a sibling
/// (same declared path; must be an id of the specification), or a root element of the specification.
pub open spec fn sp_ended_by<T: EbmlSpecification>(cur: u64, test: u64) -> bool {
    sp_is_parent::<T>(cur, test)
    || (T::sp_type(test) is Some && T::sp_path(cur) == T::sp_path(test))
    || (T::sp_type(test) is Some && T::sp_path(test).len() == 0)
}

pub open spec fn ids(d: Seq<(u64, EBMLSize)>) -> Seq<u64> { d.map(|i: int, x: (u64, EBMLSize)| x.0) }
pub open spec fn gmin(m: Option<u64>) -> int { match m { Some(v) => v as int, None => 0 } }
pub open spec fn gmax(m: Option<u64>) -> int { match m { Some(v) => v as int, None => u64::MAX as int } }

/// trigger helper for the existential below (a recursive call cannot serve as its own trigger across unfoldings)
pub open spec fn pick(k: int) -> bool { true }

/// C11: the chain of open masters matches the declared path read as a pattern: Id(a) consumes exactly one
/// master with id a, Global(min,max) consumes between min and max arbitrary masters, and the whole chain
/// must be consumed.
pub open spec fn sp_matches(path: Seq<PathPart>, chain: Seq<u64>) -> bool
    decreases path.len()
{
    if path.len() == 0 { chain.len() == 0 }
    else {
        match path[0] {
            PathPart::Id(a) => chain.len() > 0 && chain[0] == a && sp_matches(path.subrange(1, path.len() as int), chain.subrange(1, chain.len() as int)),
            PathPart::Global((min, max)) => exists|k: int| #[trigger] pick(k) && gmin(min) <= k && k <= gmax(max) && 0 <= k <= chain.len() && sp_matches(path.subrange(1, path.len() as int), chain.subrange(k, chain.len() as int)),
        }
    }
}

/// start of the trailing run of unknown-size masters (only those can be ended implicitly)
pub open spec fn sp_first_unknown(d: Seq<(u64, EBMLSize)>) -> int
    decreases d.len()
{
    if d.len() > 0 && !(d[d.len() - 1].1 is Known) { sp_first_unknown(d.subrange(0, d.len() - 1)) } else { d.len() as int }
}
/// C07/C11: number of masters that stay open: the outermost master of the trailing unknown-size run that the
/// element ends closes, together with everything nested in it
pub open spec fn sp_open_len<T: EbmlSpecification>(tag: u64, d: Seq<(u64, EBMLSize)>, from: int) -> int
    decreases d.len() - from
{
    if from >= d.len() { d.len() as int }
    else if sp_ended_by::<T>(d[from].0, tag) { from }
    else { sp_open_len::<T>(tag, d, from + 1) }
}
/// C11: "an element that closes open unknown-size masters is judged against the chain that remains after closing them"
pub open spec fn sp_accepts<T: EbmlSpecification>(tag: u64, d: Seq<(u64, EBMLSize)>) -> bool {
    sp_matches(T::sp_path(tag), ids(d.subrange(0, sp_open_len::<T>(tag, d, sp_first_unknown(d)))))
}
