// Specification vocabulary and assumed interfaces for the iterator's buffer/cursor layer (DESIGN.md §3, §7).
global size_of usize == 8;   // ASSUMPTION: 64-bit usize

// std types that only occur inside error values: opaque to the proof
#[verifier::external_type_specification]
#[verifier::external_body]
pub struct ExIoError(std::io::Error);
#[verifier::external_type_specification]
#[verifier::external_body]
pub struct ExFromUtf8Error(std::string::FromUtf8Error);

// ASSUMED specification of u8::ilog2 (std): position of the highest set bit
pub open spec fn sp_ilog2(b: u8) -> u32 { if b >= 128 { 7 } else if b >= 64 { 6 } else if b >= 32 { 5 } else if b >= 16 { 4 } else if b >= 8 { 3 } else if b >= 4 { 2 } else if b >= 2 { 1 } else { 0 } }
pub assume_specification [u8::ilog2](b: u8) -> (r: u32) requires b != 0 ensures r == sp_ilog2(b);

/// big-endian value of a byte sequence
pub open spec fn sp_be(s: Seq<u8>) -> nat decreases s.len() {
    if s.len() == 0 { 0 } else { sp_be(s.subrange(0, s.len() - 1)) * 256 + s[s.len() - 1] as nat }
}
pub open spec fn pow256(n: nat) -> nat decreases n { if n == 0 { 1 } else { 256 * pow256((n - 1) as nat) } }
proof fn lemma_pow256()
    ensures pow256(0) == 1, pow256(1) == 0x100, pow256(2) == 0x1_0000, pow256(3) == 0x100_0000, pow256(4) == 0x1_0000_0000, pow256(5) == 0x100_0000_0000, pow256(6) == 0x1_0000_0000_0000, pow256(7) == 0x100_0000_0000_0000, pow256(8) == 0x1_0000_0000_0000_0000
{ reveal_with_fuel(pow256, 10); }

pub open spec fn sp_off(o: Option<usize>) -> int { match o { Some(v) => v as int, None => 0 } }

/// Model of std::io::Read (ASSUMED, DESIGN.md §7): a finite, addressable stream of bytes.  `read` may return
/// any prefix of what remains — including Ok(0) at any time — and never more than it holds.
pub trait Read: Sized {
    /// bytes the source has yet to deliver
    spec fn remaining(&self) -> Seq<u8>;
    /// number of bytes delivered so far
    spec fn consumed(&self) -> nat;
}

/// R4 helper: `self.source.read(&mut self.buffer[start..]).map_err(|source| TagIteratorError::ReadError { source })?`
/// (a `&mut` sub-slice of an owned field is opaque to this Verus).  ASSUMED contract = the Read model.
#[verifier::external_body]
fn r4_read<R: Read>(source: &mut R, buffer: &mut Box<[u8]>, start: usize) -> (r: Result<usize, TagIteratorError>)
    requires start <= old(buffer)@.len(),
    ensures
        final(buffer)@.len() == old(buffer)@.len(),
        match r {
            Ok(n) => {
                &&& n <= old(buffer)@.len() - start
                &&& n <= old(source).remaining().len()
                &&& final(buffer)@ == old(buffer)@.subrange(0, start as int) + old(source).remaining().subrange(0, n as int) + old(buffer)@.subrange(start + n, old(buffer)@.len() as int)
                &&& final(source).remaining() == old(source).remaining().subrange(n as int, old(source).remaining().len() as int)
                &&& final(source).consumed() == old(source).consumed() + n
            },
            Err(e) => e is ReadError && final(buffer)@ == old(buffer)@ && final(source).remaining() == old(source).remaining() && final(source).consumed() == old(source).consumed(),
        }
{ unimplemented!() }

/// R4 helper: `self.buffer.copy_within(a..b, 0)` — ASSUMED contract (std)
#[verifier::external_body]
fn r4_copy_within(buffer: &mut Box<[u8]>, a: usize, b: usize)
    requires a <= b <= old(buffer)@.len(),
    ensures
        final(buffer)@.len() == old(buffer)@.len(),
        final(buffer)@.subrange(0, b - a) == old(buffer)@.subrange(a as int, b as int),
{ unimplemented!() }

/// R4 helper: `let mut v = Vec::from(&self.buffer[..]); v.resize(n, 0); self.buffer = v.into_boxed_slice();` — ASSUMED contract (std)
#[verifier::external_body]
fn r4_grow(buffer: &mut Box<[u8]>, required_capacity: usize)
    requires required_capacity > old(buffer)@.len(),
    ensures
        final(buffer)@.len() == required_capacity,
        final(buffer)@.subrange(0, old(buffer)@.len() as int) == old(buffer)@,
{ unimplemented!() }
