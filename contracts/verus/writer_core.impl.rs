    // ---- abstract state of the writer ----
    /// representation invariant: open-master starts lie inside the working buffer and never decrease towards the top
    pub closed spec fn wf(&self) -> bool { sp_stack_wf(self.open_tags@, self.working_buffer@.len() as int) }
    /// bytes handed to the destination so far
    pub closed spec fn out(&self) -> Seq<u8> { self.dest.written() }
    /// bytes accepted but not yet handed over
    pub closed spec fn pending(&self) -> Seq<u8> { self.working_buffer@ }
    /// the stack of open masters
    pub closed spec fn stack(&self) -> Seq<OpenTag> { self.open_tags@ }
    /// the abstract state as a value
    pub closed spec fn ws(&self) -> WS { WS { out: self.dest.written(), pending: self.working_buffer@, stack: self.open_tags@ } }
    /// C09 (the writer is the function sp_write): unless the destination failed, the call succeeded exactly when the
    /// specification accepts it, and then left exactly the specified state
    pub closed spec fn agrees(&self, r: Result<(), TagWriterError>, expected: Option<WS>) -> bool {
        !(r matches Err(e) && e is WriteError) ==> {
            &&& r is Ok <==> expected is Some
            &&& r is Ok ==> self.ws().out =~= expected->Some_0.out && self.ws().pending =~= expected->Some_0.pending && self.ws().stack =~= expected->Some_0.stack
        }
    }
    /// where the header of the innermost open master will be spliced in (its recorded start, or the end of the buffer)
    pub closed spec fn top_start(&self) -> int {
        if self.open_tags@.len() > 0 && self.open_tags@.last().1 is Known { self.open_tags@.last().1->Known_0 as int } else { self.working_buffer@.len() as int }
    }
    /// what an element writer may do: append to the working buffer, nothing else; its errors are never I/O errors
    pub closed spec fn elem_step(&self, o: &Self, r: Result<(), TagWriterError>) -> bool {
        &&& self.dest == o.dest
        &&& self.open_tags@ == o.open_tags@
        &&& sp_prefix(o.working_buffer@, self.working_buffer@)
        &&& r matches Err(e) ==> !(e is WriteError)
    }
    /// C10 + C19 (pre-rollback form): the relation between the state before (o) and after (self) one write of a tag.
    /// `is_end`: the tag is a master End; `unk`: the call starts an unknown-size master (the one call that hands nothing over)
    pub closed spec fn step(&self, o: &Self, r: Result<(), TagWriterError>, is_end: bool, unk: Option<u64>) -> bool {
        &&& self.wf()
        &&& sp_prefix(o.out(), self.out())
        &&& (r matches Err(e) && !(e is WriteError)) ==> {
                &&& self.out() == o.out()
                &&& sp_prefix(o.pending(), self.pending())
                &&& sp_tags_prefix(o.stack(), self.stack())
            }
        &&& r is Ok ==> {
                &&& (unk is None && !sp_any_known(self.stack()) ==> self.pending().len() == 0)
                &&& (sp_any_known(self.stack()) ==> self.out() == o.out())
                &&& unk matches Some(id) ==> {
                        &&& self.out() == o.out()
                        &&& self.stack() == o.stack().push((id, EBMLSize::Unknown, 0usize))
                        &&& self.pending() == o.pending() + sp_id_bytes(id) + sp_unknown8()
                    }
                &&& unk is None && is_end ==> {
                        &&& o.stack().len() > 0
                        &&& self.stack() == o.stack().drop_last()
                        &&& (sp_any_known(self.stack()) ==> o.top_start() <= self.pending().len() && self.pending().subrange(0, o.top_start()) =~= o.pending().subrange(0, o.top_start()))
                    }
                &&& unk is None && !is_end ==> {
                        &&& sp_tags_prefix(o.stack(), self.stack())
                        &&& (sp_any_known(self.stack()) ==> sp_prefix(o.pending(), self.pending()))
                    }
            }
    }
    /// C19: a call rejected with anything but an I/O error leaves destination, working buffer and open masters as they were
    pub closed spec fn untouched(&self, o: &Self) -> bool {
        self.out() == o.out() && self.pending() == o.pending() && self.stack() == o.stack()
    }
    /// the element at the top of the `Full` master's own entry keeps the master's frame: used after each child of a Full master
    pub proof fn lemma_full_child(o: &Self, before: &Self, after: &Self, entry: OpenTag, r: Result<(), TagWriterError>, child_is_end: bool)
        requires
            before.wf(), before.out() == o.out(),
            entry.1 == EBMLSize::Known(o.pending().len() as usize), o.pending().len() <= usize::MAX,
            sp_tags_prefix(o.stack().push(entry), before.stack()),
            sp_prefix(o.pending(), before.pending()),
            child_is_end ==> before.stack().len() != o.stack().len() + 1,
            after.step(before, r, child_is_end, None),
            r is Ok,
        ensures
            after.wf(), after.out() == o.out(),
            sp_tags_prefix(o.stack().push(entry), after.stack()),
            sp_prefix(o.pending(), after.pending()),
    {
        let p = o.stack().push(entry);
        let k = o.stack().len() as int;
        assert(before.stack()[k] == p[k]);
        if child_is_end {
            assert(before.stack().len() > k + 1);
            assert(after.stack() == before.stack().drop_last());
            assert(after.stack()[k] == p[k]);
            assert(sp_tags_prefix(p, after.stack()));
            assert(sp_any_known(after.stack()));
            let j = before.stack().len() - 1;
            assert(before.stack()[k].1 is Known);
            assert(before.stack()[k].1->Known_0 == o.pending().len());
            assert(before.stack()[k].1->Known_0 <= before.pending().len());
            assert(before.stack()[j].1 is Known ==> before.stack()[k].1->Known_0 <= before.stack()[j].1->Known_0);
            assert(before.stack().last() == before.stack()[j]);
            assert(o.pending().len() <= before.top_start());
        } else {
            assert(sp_tags_prefix(p, after.stack()));
            assert(after.stack()[k] == p[k]);
            assert(sp_any_known(after.stack()));
        }
    }
    /// closing the Full master (or whatever is innermost then) splices its header at or after the master's own start
    pub proof fn lemma_full_end(o: &Self, before: &Self, after: &Self, entry: OpenTag, id: u64)
        requires
            before.wf(),
            entry.1 == EBMLSize::Known(o.pending().len() as usize), o.pending().len() <= usize::MAX,
            sp_tags_prefix(o.stack().push(entry), before.stack()),
            sp_prefix(o.pending(), before.pending()),
            after.stack() == before.stack().drop_last(),
            before.stack().last().1 is Unknown ==> after.pending() == before.pending(),
            before.stack().last().1 is Known ==> exists|f: Seq<u8>| #[trigger] sp_header_at(before.pending(), before.stack().last().1->Known_0 as int, id, after.pending(), f),
        ensures
            sp_prefix(o.pending(), after.pending()),
            sp_tags_prefix(o.stack(), after.stack()),
    {
        let p = o.stack().push(entry);
        let k = o.stack().len() as int;
        let j = before.stack().len() - 1;
        assert(before.stack()[k] == p[k]);
        assert(before.stack()[k].1 is Known);
        assert(before.stack()[k].1->Known_0 == o.pending().len());
        assert(before.stack().last() == before.stack()[j]);
        if before.stack()[j].1 is Known {
            assert(before.stack()[k].1->Known_0 <= before.stack()[j].1->Known_0);
            let f = choose|f: Seq<u8>| #[trigger] sp_header_at(before.pending(), before.stack().last().1->Known_0 as int, id, after.pending(), f);
            assert(sp_header_at(before.pending(), before.stack().last().1->Known_0 as int, id, after.pending(), f));
        }
    }
    /// C09: the deprecated write_unknown_size(tag) and write_advanced(tag, is_unknown_sized_element()) agree — a lemma over
    /// the two contracts: from the same pre-state `o` both return Ok under the same condition and leave the same state
    pub proof fn lemma_unknown_size_calls_agree<T: EbmlSpecification>(o: &Self, tag: &T, a: &Self, ra: Result<(), TagWriterError>, b: &Self, rb: Result<(), TagWriterError>)
        requires
            // contract of write_unknown_size
            a.step(o, ra, false, Some(tag.sp_id())),
            (ra matches Err(e) && !(e is WriteError)) ==> a.untouched(o),
            ra is Ok <==> T::sp_type(tag.sp_id()) == Some(TagDataType::Master),
            !(ra matches Err(e) && e is WriteError),
            // contract of write_advanced with options.unk()
            b.step(o, rb, sp_is_end(tag), Some(tag.sp_id())),
            (rb matches Err(e) && !(e is WriteError)) ==> b.untouched(o),
            (rb is Ok <==> T::sp_type(tag.sp_id()) == Some(TagDataType::Master)) && !(rb matches Err(e) && e is WriteError),
        ensures
            ra is Ok <==> rb is Ok,
            a.out() == b.out(), a.pending() == b.pending(), a.stack() == b.stack(),
    {
    }
