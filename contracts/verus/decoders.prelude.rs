// Specification vocabulary for the payload decoders of tools.rs (unit decoders: C16, C05) — slices of ANY length
// (engine K proves the same contracts for every slice of <= 9 bytes, bit-precisely; this unit removes the length bound).
global size_of usize == 8;   // ASSUMPTION: 64-bit usize

#[verifier::external_type_specification]
#[verifier::external_body]
pub struct ExFromUtf8Error(std::string::FromUtf8Error);

/// big-endian value of a byte sequence
pub open spec fn sp_be(s: Seq<u8>) -> nat decreases s.len() {
    if s.len() == 0 { 0 } else { sp_be(s.subrange(0, s.len() - 1)) * 256 + s[s.len() - 1] as nat }
}
pub open spec fn pow256(n: nat) -> nat decreases n { if n == 0 { 1 } else { 256 * pow256((n - 1) as nat) } }
proof fn lemma_pow256()
    ensures pow256(0) == 1, pow256(1) == 0x100, pow256(2) == 0x1_0000, pow256(3) == 0x100_0000, pow256(4) == 0x1_0000_0000, pow256(5) == 0x100_0000_0000, pow256(6) == 0x1_0000_0000_0000, pow256(7) == 0x100_0000_0000_0000, pow256(8) == 0x1_0000_0000_0000_0000
{ reveal_with_fuel(pow256, 10); }
pub proof fn lemma_be_bound(s: Seq<u8>)
    ensures sp_be(s) < pow256(s.len())
    decreases s.len()
{
    if s.len() > 0 { lemma_be_bound(s.subrange(0, s.len() - 1)); }
}
/// the first byte is the most significant one
pub proof fn lemma_be_first(s: Seq<u8>)
    requires s.len() >= 1
    ensures s[0] as nat * pow256((s.len() - 1) as nat) <= sp_be(s) < (s[0] as nat + 1) * pow256((s.len() - 1) as nat)
    decreases s.len()
{
    if s.len() == 1 {
        assert(s.subrange(0, 0).len() == 0);
        assert(sp_be(s) == s[0] as nat) by { reveal_with_fuel(sp_be, 2); }
        assert(pow256(0) == 1);
        assert(s[0] as nat * pow256(0) == s[0] as nat) by (nonlinear_arith) requires pow256(0) == 1;
        assert((s[0] as nat + 1) * pow256(0) == s[0] as nat + 1) by (nonlinear_arith) requires pow256(0) == 1;
    } else {
        let p = s.subrange(0, s.len() - 1);
        lemma_be_first(p);
        assert(p[0] == s[0]);
        let k = pow256((s.len() - 2) as nat);
        assert(pow256((s.len() - 1) as nat) == 256 * k);
        let a = s[0] as nat;
        assert(a * k <= sp_be(p) && sp_be(p) + 1 <= (a + 1) * k);
        assert(sp_be(s) == sp_be(p) * 256 + s[s.len() - 1] as nat);
        assert(a * (256 * k) == (a * k) * 256) by (nonlinear_arith);
        assert((a + 1) * (256 * k) == ((a + 1) * k) * 256) by (nonlinear_arith);
        assert((a * k) * 256 <= sp_be(p) * 256) by (nonlinear_arith) requires a * k <= sp_be(p);
        assert((sp_be(p) + 1) * 256 <= ((a + 1) * k) * 256) by (nonlinear_arith) requires sp_be(p) + 1 <= (a + 1) * k;
        assert(a * pow256((s.len() - 1) as nat) <= sp_be(s));
        assert(sp_be(s) < (a + 1) * pow256((s.len() - 1) as nat));
    }
}
/// two's complement big-endian value of 0..=8 bytes (the empty sequence is 0)
pub open spec fn sp_twos(b: Seq<u8>) -> int {
    if b.len() == 0 { 0 } else if b[0] > 127 { sp_be(b) - pow256(b.len()) } else { sp_be(b) as int }
}

/// `Vec::from(arr)` (std) — only used inside error values
#[verifier::external_body]
fn r4_vec_from(arr: &[u8]) -> (r: Vec<u8>) ensures r@ == arr@ { unimplemented!() }
/// `x.expect("..")` on a Result — `requires x is Ok`: Verus must prove the expect cannot fire
#[verifier::external_body]
fn r4_expect_ok<T, E>(x: Result<T, E>) -> (r: T) requires x is Ok ensures Ok::<T, E>(r) == x { unimplemented!() }
/// `i64::from_be_bytes(arr.try_into().expect(..))` for an 8-byte slice (std): the two's complement big-endian value
#[verifier::external_body]
fn r4_i64_from_be8(arr: &[u8]) -> (r: i64) requires arr@.len() == 8 ensures r == sp_twos(arr@) { unimplemented!() }
/// the IEEE-754 values of 4 / 8 big-endian bytes (std `from_be_bytes`, and the exact f32 -> f64 widening); uninterpreted
pub uninterp spec fn sp_f32_be(b: Seq<u8>) -> f64;
pub uninterp spec fn sp_f64_be(b: Seq<u8>) -> f64;
#[verifier::external_body]
fn r4_f32_from_be4(arr: &[u8]) -> (r: f64) requires arr@.len() == 4 ensures r == sp_f32_be(arr@) { unimplemented!() }
#[verifier::external_body]
fn r4_f64_from_be8(arr: &[u8]) -> (r: f64) requires arr@.len() == 8 ensures r == sp_f64_be(arr@) { unimplemented!() }
