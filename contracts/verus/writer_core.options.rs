    /// the options ask for an unknown-size master
    pub closed spec fn unk(&self) -> bool { self.unknown_sized_element }
    /// the requested size-field width, if any
    pub closed spec fn width(&self) -> Option<usize> { self.size_byte_length }
