// verif_tools.rs — child module of src/tools.rs in the overlay (reaches the private helpers).
//
// Each `h_*` function is a harness body written once; the overlay generator turns every `//@K` line
// into a Kani wrapper (`#[kani::proof]` / `#[kani::proof_for_contract]`) and into an entry of the
// native replay registry.  Inputs come from crate::verif_spec::src (kani::any() under Kani, recorded
// bytes under replay).  All loops in the code under contract here are bounded by the operand width
// (<= 8 iterations); unwind 10 with unwinding assertions on makes every harness complete.
#![allow(dead_code, unused_imports)]

use super::*;
use crate::verif_spec as sp;
use crate::verif_spec::src;
use crate::verif_spec::Dec;

// ---- C15: unsigned encoders ---------------------------------------------------------------------

//@K name=k_check_size_u64 for=super::check_size_u64 unwind=10 props=C15
pub fn h_check_size_u64() {
    let val = src::u64_();
    let w = src::usize_();
    src::assume(1 <= w && w <= 8);
    let r = check_size_u64(val, w);
    crate::vcheck!(sp::post_check_size_u64(val, w, &r), "check_size_u64: Err iff val >= 2^(7w)");
}

fn post_no_check<const L: usize>(val: u64) -> bool {
    let out = as_vint_no_check_u64::<L>(val);
    sp::is_enc_vint(&out, val, L)
}

//@K name=k_as_vint_no_check_u64 unwind=10 props=C15
pub fn h_as_vint_no_check_u64() {
    let val = src::u64_();
    let w = src::usize_();
    src::assume(1 <= w && w <= 8);
    src::assume(val < sp::pow2_64(7 * w));
    let ok = match w {
        1 => post_no_check::<1>(val), 2 => post_no_check::<2>(val), 3 => post_no_check::<3>(val),
        4 => post_no_check::<4>(val), 5 => post_no_check::<5>(val), 6 => post_no_check::<6>(val),
        7 => post_no_check::<7>(val), _ => post_no_check::<8>(val),
    };
    crate::vcheck!(ok, "as_vint_no_check_u64::<w>: out = BE_w(val + 2^(7w))");
}

fn post_as_vint(val: u64, r: &Result<Vec<u8>, ToolError>) -> bool {
    match r {
        Ok(out) => sp::min_w(val) <= 8 && sp::is_enc_vint(out, val, sp::min_w(val)),
        Err(ToolError::WriteVintOverflow(v)) => *v == val && sp::min_w(val) == 9,
        _ => false,
    }
}

//@K name=k_as_vint_u64 unwind=10 props=C15,C01
pub fn h_as_vint_u64() {
    let val = src::u64_();
    let r = val.as_vint();
    crate::vcheck!(post_as_vint(val, &r), "as_vint: shortest width encoding, Err exactly for val >= 2^56");
}

//@K name=k_as_vint_u32 unwind=10 props=C15
pub fn h_as_vint_u32() {
    let val = src::u32_();
    let r = val.as_vint();
    crate::vcheck!(post_as_vint(val as u64, &r), "as_vint (u32): shortest width encoding");
}

//@K name=k_as_vint_u16_u8 unwind=10 props=C15
pub fn h_as_vint_u16_u8() {
    let a = src::u16_();
    let b = src::u8_();
    let ra = a.as_vint();
    let rb = b.as_vint();
    crate::vcheck!(post_as_vint(a as u64, &ra), "as_vint (u16): shortest width encoding");
    crate::vcheck!(post_as_vint(b as u64, &rb), "as_vint (u8): shortest width encoding");
}

fn post_with_length<const L: usize>(val: u64) -> bool {
    let r = val.as_vint_with_length::<L>();
    match r {
        Ok(out) => val < sp::pow2_64(7 * L) && sp::is_enc_vint(&out, val, L),
        Err(ToolError::WriteVintOverflow(v)) => v == val && val >= sp::pow2_64(7 * L),
        _ => false,
    }
}

//@K name=k_as_vint_with_length unwind=10 props=C15,C09
pub fn h_as_vint_with_length() {
    let val = src::u64_();
    let w = src::usize_();
    src::assume(1 <= w && w <= 8);
    let ok = match w {
        1 => post_with_length::<1>(val), 2 => post_with_length::<2>(val), 3 => post_with_length::<3>(val),
        4 => post_with_length::<4>(val), 5 => post_with_length::<5>(val), 6 => post_with_length::<6>(val),
        7 => post_with_length::<7>(val), _ => post_with_length::<8>(val),
    };
    crate::vcheck!(ok, "as_vint_with_length::<w>: exactly width w, overflow exactly when val >= 2^(7w)");
}

// ---- C15: decoders ------------------------------------------------------------------------------

//@K name=k_read_vint for=super::read_vint unwind=10 props=C15,C05,C12
pub fn h_read_vint() {
    let arr = sp::any_arr9();
    let n = sp::any_len9();
    let s = &arr[..n];
    let r = read_vint(s);
    crate::vcheck!(sp::post_read_vint(s, &r), "read_vint = dec_vint (value, length <= |buf|, NeedMore exactly for proper prefixes, Overflow for 0x00)");
}

//@K name=k_read_signed_vint for=super::read_signed_vint unwind=10 props=C15
pub fn h_read_signed_vint() {
    let arr = sp::any_arr9();
    let n = sp::any_len9();
    let s = &arr[..n];
    let r = read_signed_vint(s);
    crate::vcheck!(sp::post_read_signed_vint(s, &r), "read_signed_vint = dec_svint (two's complement in 7n bits, every width incl. 8)");
}

//@K name=k_decoders_agree_on_length unwind=10 props=C15
pub fn h_decoders_agree_on_length() {
    let arr = sp::any_arr9();
    let n = sp::any_len9();
    let s = &arr[..n];
    let ok = match (read_vint(s), read_signed_vint(s)) {
        (Ok(None), Ok(None)) => true,
        (Err(ToolError::ReadVintOverflow), Err(ToolError::ReadVintOverflow)) => true,
        (Ok(Some((_, a))), Ok(Some((_, b)))) => a == b,
        _ => false,
    };
    crate::vcheck!(ok, "signed and unsigned decoders agree on length / need-more / overflow");
}

//@K name=k_is_vint for=super::is_vint unwind=10 props=C15,C01,C19
pub fn h_is_vint() {
    let v = src::u64_();
    let r = is_vint(v);
    crate::vcheck!(r == sp::id_ok(v), "is_vint(v) <=> byte length of v matches its length marker");
}

// ---- C15: signed encoders -----------------------------------------------------------------------

//@K name=k_check_size_i64 for=super::check_size_i64 unwind=10 props=C15
pub fn h_check_size_i64() {
    let val = src::i64_();
    let w = src::usize_();
    src::assume(1 <= w && w <= 8);
    let r = check_size_i64(val, w);
    crate::vcheck!(sp::post_check_size_i64(val, w, &r), "check_size_i64: Ok iff -2^(7w-1) < val < 2^(7w-1)");
}

//@K name=k_as_vint_no_check_i64 unwind=10 props=C15
pub fn h_as_vint_no_check_i64() {
    let val = src::i64_();
    let w = src::usize_();
    src::assume(1 <= w && w <= 8);
    src::assume(sp::fits_signed(val, w));
    let out = as_vint_no_check_i64(val, w);
    crate::vcheck!(sp::is_enc_svint(&out, val, w), "as_vint_no_check_i64: out = BE_w((val mod 2^(7w)) + 2^(7w))");
}

//@K name=k_as_signed_vint unwind=10 props=C15
pub fn h_as_signed_vint() {
    let val = src::i64_();
    let r = val.as_signed_vint();
    let ok = match &r {
        Ok(out) => sp::fits_signed_strict(val, 8) && sp::min_sw(val) <= 8 && sp::is_enc_svint(out, val, sp::min_sw(val)),
        Err(ToolError::WriteSignedVintOverflow(v)) => *v == val && !sp::fits_signed_strict(val, 8),
        _ => false,
    };
    crate::vcheck!(ok, "as_signed_vint: shortest width whose two's-complement range holds val; Err exactly outside (-2^55, 2^55)");
}

//@K name=k_as_signed_vint_with_length unwind=10 props=C15
pub fn h_as_signed_vint_with_length() {
    let val = src::i64_();
    let w = src::usize_();
    src::assume(1 <= w && w <= 8);
    let r = val.as_signed_vint_with_length(w);
    let ok = match &r {
        Ok(out) => sp::fits_signed_strict(val, w) && sp::is_enc_svint(out, val, w),
        Err(ToolError::WriteSignedVintOverflow(v)) => *v == val && !sp::fits_signed_strict(val, w),
        _ => false,
    };
    crate::vcheck!(ok, "as_signed_vint_with_length(w): exactly width w; Err exactly when val is not strictly inside the 7w-bit range");
}

// ---- C15: lemmas over the specification functions (connect encoder and decoder contracts) -------

//@K name=k_lemma_unsigned_roundtrip unwind=10 props=C15,C01
pub fn h_lemma_unsigned_roundtrip() {
    // for every slice whose first w bytes are enc_vint(x, w): dec_vint = (x, w)
    let arr = sp::any_arr9();
    let n = sp::any_len9();
    let x = src::u64_();
    let w = src::usize_();
    src::assume(1 <= w && w <= 8 && w <= n);
    src::assume(x < sp::pow2_64(7 * w));
    src::assume(sp::is_enc_vint(&arr[..w], x, w));
    crate::vcheck!(sp::dec_vint(&arr[..n]) == Dec::Val(x, w), "lemma: dec_vint(enc_vint(x,w) ++ rest) = (x, w)");
}

//@K name=k_lemma_signed_roundtrip unwind=10 props=C15
pub fn h_lemma_signed_roundtrip() {
    let arr = sp::any_arr9();
    let n = sp::any_len9();
    let x = src::i64_();
    let w = src::usize_();
    src::assume(1 <= w && w <= 8 && w <= n);
    src::assume(sp::fits_signed(x, w));
    src::assume(sp::is_enc_svint(&arr[..w], x, w));
    crate::vcheck!(sp::dec_svint(&arr[..n]) == Dec::Val(x, w), "lemma: dec_svint(enc_svint(x,w) ++ rest) = (x, w)");
}

//@K name=k_lemma_prefix_need_more unwind=10 props=C15,C12
pub fn h_lemma_prefix_need_more() {
    // NeedMore exactly for proper prefixes of a vint: if dec(s) = Val(_, n) then every shorter prefix is NeedMore
    let arr = sp::any_arr9();
    let n = sp::any_len9();
    let k = src::usize_();
    src::assume(k <= n);
    if let Dec::Val(_, len) = sp::dec_vint(&arr[..n]) {
        let d = sp::dec_vint(&arr[..k]);
        crate::vcheck!(if k < len { d == Dec::NeedMore } else { d == sp::dec_vint(&arr[..n]) }, "lemma: prefixes shorter than the vint need more data, longer ones decode identically");
    }
}

// direct round trips on the real code (redundant with contracts + lemmas; kept as an end-to-end cross-check)
fn rt_u<const L: usize>(x: u64) -> bool {
    match x.as_vint_with_length::<L>() {
        Ok(out) => matches!(read_vint(&out), Ok(Some((v, l))) if v == x && l == L),
        Err(_) => true,
    }
}
//@K name=k_roundtrip_unsigned_real unwind=10 props=C15 tier=thorough
pub fn h_roundtrip_unsigned_real() {
    let x = src::u64_();
    let w = src::usize_();
    src::assume(1 <= w && w <= 8);
    let ok = match w { 1 => rt_u::<1>(x), 2 => rt_u::<2>(x), 3 => rt_u::<3>(x), 4 => rt_u::<4>(x), 5 => rt_u::<5>(x), 6 => rt_u::<6>(x), 7 => rt_u::<7>(x), _ => rt_u::<8>(x) };
    crate::vcheck!(ok, "read_vint(as_vint_with_length::<w>(x)) = (x, w)");
}
//@K name=k_roundtrip_signed_real unwind=10 props=C15
pub fn h_roundtrip_signed_real() {
    let x = src::i64_();
    let w = src::usize_();
    src::assume(1 <= w && w <= 8);
    if let Ok(out) = x.as_signed_vint_with_length(w) {
        let ok = matches!(read_signed_vint(&out), Ok(Some((v, l))) if v == x && l == w);
        crate::vcheck!(ok, "read_signed_vint(as_signed_vint_with_length(x, w)) = (x, w) for every width incl. 8");
    }
}

// ---- C16: payload decoders ----------------------------------------------------------------------

//@K name=k_arr_to_u64 for=super::arr_to_u64 unwind=11 props=C16,C05,C03
pub fn h_arr_to_u64() {
    let arr = sp::any_arr9();
    let n = sp::any_len9();
    let s = &arr[..n];
    let r = arr_to_u64(s);
    crate::vcheck!(sp::post_arr_to_u64(s, &r), "arr_to_u64 = big-endian value for |s| <= 8 (0 for empty), Err for longer");
}

//@K name=k_arr_to_i64 for=super::arr_to_i64 unwind=11 props=C16,C05,C03
pub fn h_arr_to_i64() {
    let arr = sp::any_arr9();
    let n = sp::any_len9();
    let s = &arr[..n];
    let r = arr_to_i64(s);
    crate::vcheck!(sp::post_arr_to_i64(s, &r), "arr_to_i64 = two's complement sign-extended from |s| (0 for empty), Err for longer; no panic");
}

//@K name=k_arr_to_f64 for=super::arr_to_f64 unwind=11 props=C16,C05,C03
pub fn h_arr_to_f64() {
    let arr = sp::any_arr9();
    let n = sp::any_len9();
    let s = &arr[..n];
    let r = arr_to_f64(s);
    crate::vcheck!(sp::post_arr_to_f64(s, &r), "arr_to_f64 = IEEE-754 value for |s| in {4,8}, Err otherwise");
}

//@K name=k_lemma_f32_fixpoint unwind=10 props=C02,C16
pub fn h_lemma_f32_fixpoint() {
    // C02: a 4-byte float keeps its meaning when re-encoded as 8 bytes: decode(8-byte BE of decode(s4)) == decode(s4) bit for bit
    let b = [src::u8_(), src::u8_(), src::u8_(), src::u8_()];
    if let Ok(v) = arr_to_f64(&b) {
        let re = v.to_be_bytes();
        let ok = match arr_to_f64(&re) { Ok(v2) => v2.to_bits() == v.to_bits(), Err(_) => false };
        crate::vcheck!(ok, "arr_to_f64(to_be_bytes(arr_to_f64(s4))) is bit-identical to arr_to_f64(s4)");
    } else {
        crate::vcheck!(false, "arr_to_f64 accepts every 4-byte slice");
    }
}

//@K name=k_lemma_vint_value_bound for=super::read_vint unwind=10 props=C15,C13,C17,C12
pub fn h_lemma_vint_value_bound() {
    // the facts about read_vint that the Verus unit reader_core ASSUMES (sp_read_vint): value < 2^(7 len) <= 2^56,
    // len = 8 - ilog2(first byte) <= |buf|, value + 2^(7 len) = big-endian value of the first len bytes
    let arr = sp::any_arr9();
    let n = sp::any_len9();
    let s = &arr[..n];
    match read_vint(s) {
        Ok(Some((v, l))) => {
            crate::vcheck!(1 <= l && l <= 8 && l <= n && l == 8 - (s[0].ilog2() as usize), "read_vint: length = 8 - ilog2(first byte), within the slice");
            crate::vcheck!(v < sp::pow2_64(7 * l) && v < (1u64 << 56), "read_vint: value < 2^(7 len) <= 2^56");
            crate::vcheck!(v + sp::pow2_64(7 * l) == sp::be64(&s[..l]), "read_vint: value + marker = big-endian value of the first len bytes");
        }
        Ok(None) => crate::vcheck!(n == 0 || (s[0] != 0 && n < 8 - (s[0].ilog2() as usize)), "read_vint: need-more exactly when the slice is empty or shorter than the announced length"),
        Err(_) => crate::vcheck!(n > 0 && s[0] == 0, "read_vint: error exactly for a first byte 0x00"),
    }
}
