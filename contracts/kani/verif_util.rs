// verif_util.rs — child module of src/tag_iterator_util.rs in the overlay
#![allow(dead_code, unused_imports)]

use super::*;
use crate::verif_spec as sp;
use crate::verif_spec::src;

pub fn post_ebml_size_new(size: u64, vint_length: usize, r: &EBMLSize) -> bool {
    if sp::is_all_ones(size, vint_length) { *r == EBMLSize::Unknown } else { *r == EBMLSize::Known(size as usize) }
}

//@K name=k_ebml_size_new for=super::EBMLSize::new unwind=10 props=C01,C07,C17
pub fn h_ebml_size_new() {
    let size = src::u64_();
    let len = src::usize_();
    // precondition from the call sites (EBMLSize is crate-private): the width is the length of a vint just read or written, 1..=8
    src::assume(1 <= len && len <= 8);
    let r = EBMLSize::new(size, len);
    crate::vcheck!(post_ebml_size_new(size, len, &r), "EBMLSize::new(size, w) = Unknown iff VINT_DATA of width w is all ones, else Known(size): every u64 size x every width 1..=8");
    crate::vcheck!(r.is_known() == matches!(r, EBMLSize::Known(_)), "is_known() <=> the size is Known");
    if let EBMLSize::Known(v) = r { crate::vcheck!(r.value() == v, "value() returns the known size"); }
}
