// verif_iter.rs — child module of src/tag_iterator.rs in the overlay (reaches private fields).
// Configuration surface of the iterator (C13: tolerance mask, default size limit).
#![allow(dead_code, unused_imports)]

use super::*;
use crate::verif_spec::src;
use crate::specs::{EbmlSpecification, EbmlTag, Master, TagDataType, PathPart};

/// a specification with no elements (the configuration functions never consult it)
#[derive(Clone)]
pub struct NoSpec;
impl EbmlSpecification<NoSpec> for NoSpec {
    fn get_tag_data_type(_id: u64) -> Option<TagDataType> { None }
    fn get_path_by_id(_id: u64) -> &'static [PathPart] { &[] }
    fn get_unsigned_int_tag(_id: u64, _data: u64) -> Option<NoSpec> { None }
    fn get_signed_int_tag(_id: u64, _data: i64) -> Option<NoSpec> { None }
    fn get_utf8_tag(_id: u64, _data: String) -> Option<NoSpec> { None }
    fn get_binary_tag(_id: u64, _data: &[u8]) -> Option<NoSpec> { None }
    fn get_float_tag(_id: u64, _data: f64) -> Option<NoSpec> { None }
    fn get_master_tag(_id: u64, _data: Master<NoSpec>) -> Option<NoSpec> { None }
    fn get_raw_tag(_id: u64, _data: &[u8]) -> NoSpec { NoSpec }
}
impl EbmlTag<NoSpec> for NoSpec {
    fn get_id(&self) -> u64 { 0 }
    fn as_unsigned_int(&self) -> Option<&u64> { None }
    fn as_signed_int(&self) -> Option<&i64> { None }
    fn as_utf8(&self) -> Option<&str> { None }
    fn as_binary(&self) -> Option<&[u8]> { None }
    fn as_float(&self) -> Option<&f64> { None }
    fn as_master(&self) -> Option<&Master<NoSpec>> { None }
}

fn pick(k: u8) -> AllowableErrors {
    match k % 3 { 0 => AllowableErrors::InvalidTagIds, 1 => AllowableErrors::HierarchyProblems, _ => AllowableErrors::OversizedTags }
}
fn bit(k: u8) -> u8 { match k % 3 { 0 => 0x01, 1 => 0x02, _ => 0x04 } }

//@K name=k_iter_config unwind=6 props=C13,C17
pub fn h_iter_config() {
    let input: &[u8] = &[];
    // The real constructor builds a HashSet (RandomState -> OS randomness) and a VecDeque, which CBMC cannot get through
    // (measured: > 10 min).  The configuration functions only touch two scalar fields, so the iterator is assembled here
    // field by field with the constructor's documented defaults; the set of buffered ids is never looked at (and never dropped).
    // Field-by-field through raw pointers into a zeroed value, so that a field added to the struct later (zero-valid types)
    // does not stop this module - and with it every other harness of the crate - from compiling.
    let mut mu: std::mem::MaybeUninit<TagIterator<&[u8], NoSpec>> = std::mem::MaybeUninit::zeroed();
    let p = mu.as_mut_ptr();
    unsafe {
        std::ptr::addr_of_mut!((*p).source).write(input);
        std::ptr::addr_of_mut!((*p).allowed_errors).write(0);
        std::ptr::addr_of_mut!((*p).max_allowed_tag_size).write(Some(4 * usize::pow(1000, 3)));
        std::ptr::addr_of_mut!((*p).buffer).write(Vec::new().into_boxed_slice());
        std::ptr::addr_of_mut!((*p).buffered_byte_length).write(0);
        std::ptr::addr_of_mut!((*p).buffer_offset).write(None);
        std::ptr::addr_of_mut!((*p).internal_buffer_position).write(0);
        std::ptr::addr_of_mut!((*p).tag_stack).write(Vec::new());
        std::ptr::addr_of_mut!((*p).emission_queue).write(VecDeque::new());
        std::ptr::addr_of_mut!((*p).last_emitted_tag_offset).write(0);
        std::ptr::addr_of_mut!((*p).has_determined_doc_path).write(false);
        std::ptr::addr_of_mut!((*p).emit_master_end_when_eof).write(true);
    }
    // tag_ids_to_buffer (a HashSet) stays zeroed: never looked at, never dropped
    let mut it: TagIterator<&[u8], NoSpec> = unsafe { mu.assume_init() };
    // any list of up to 4 classes, in any order, with repetitions
    let n = src::u8_();
    src::assume(n <= 4);
    let (a, b, c, d) = (src::u8_(), src::u8_(), src::u8_(), src::u8_());
    let all = [pick(a), pick(b), pick(c), pick(d)];
    let mut want = 0u8;
    if n > 0 { want |= bit(a); }
    if n > 1 { want |= bit(b); }
    if n > 2 { want |= bit(c); }
    if n > 3 { want |= bit(d); }
    it.allow_errors(&all[..n as usize]);
    crate::vcheck!(it.allowed_errors == want, "allow_errors sets exactly the bits of the listed classes (order and repetition do not matter; a later call replaces the mask)");
    crate::vcheck!(it.max_allowed_tag_size == Some(4_000_000_000), "allow_errors leaves the size limit in force");
    it.allow_errors(&[]);
    crate::vcheck!(it.allowed_errors == 0, "allow_errors(&[]) returns to strict mode");
    let has = src::bool_();
    let m = src::usize_();
    let lim = if has { Some(m) } else { None };
    it.set_max_allowable_tag_size(lim);
    crate::vcheck!(it.max_allowed_tag_size == lim && it.allowed_errors == 0, "set_max_allowable_tag_size stores exactly the given limit and touches nothing else");
    std::mem::forget(it);
}
