// verif_iter.rs — child module of src/tag_iterator.rs in the overlay (reaches private fields).
// Configuration surface of the iterator (C13: tolerance mask, default size limit).
#![allow(dead_code, unused_imports)]

use super::*;
use crate::verif_spec::src;
use crate::specs::{EbmlSpecification, EbmlTag, Master, TagDataType, PathPart};

/// a specification with no elements (the configuration functions never consult it)
#[derive(Clone)]
pub struct NoSpec;
impl EbmlSpecification<NoSpec> for NoSpec {
    fn get_tag_data_type(_id: u64) -> Option<TagDataType> { None }
    fn get_path_by_id(_id: u64) -> &'static [PathPart] { &[] }
    fn get_unsigned_int_tag(_id: u64, _data: u64) -> Option<NoSpec> { None }
    fn get_signed_int_tag(_id: u64, _data: i64) -> Option<NoSpec> { None }
    fn get_utf8_tag(_id: u64, _data: String) -> Option<NoSpec> { None }
    fn get_binary_tag(_id: u64, _data: &[u8]) -> Option<NoSpec> { None }
    fn get_float_tag(_id: u64, _data: f64) -> Option<NoSpec> { None }
    fn get_master_tag(_id: u64, _data: Master<NoSpec>) -> Option<NoSpec> { None }
    fn get_raw_tag(_id: u64, _data: &[u8]) -> NoSpec { NoSpec }
}
impl EbmlTag<NoSpec> for NoSpec {
    fn get_id(&self) -> u64 { 0 }
    fn as_unsigned_int(&self) -> Option<&u64> { None }
    fn as_signed_int(&self) -> Option<&i64> { None }
    fn as_utf8(&self) -> Option<&str> { None }
    fn as_binary(&self) -> Option<&[u8]> { None }
    fn as_float(&self) -> Option<&f64> { None }
    fn as_master(&self) -> Option<&Master<NoSpec>> { None }
}

fn pick(k: u8) -> AllowableErrors {
    match k % 3 { 0 => AllowableErrors::InvalidTagIds, 1 => AllowableErrors::HierarchyProblems, _ => AllowableErrors::OversizedTags }
}
fn bit(k: u8) -> u8 { match k % 3 { 0 => 0x01, 1 => 0x02, _ => 0x04 } }

//@K name=k_iter_config unwind=6 props=C13,C17 assembled=1
pub fn h_iter_config() {
    let input: &[u8] = &[];
    // The real constructor builds a HashSet (RandomState -> OS randomness) and a VecDeque, which CBMC cannot get through
    // (measured: > 10 min).  The configuration functions only touch two scalar fields, so the iterator is assembled here
    // field by field with the constructor's documented defaults; the set of buffered ids is never looked at (and never dropped).
    // Field-by-field through raw pointers into a zeroed value, so that a field added to the struct later (zero-valid types)
    // does not stop this module - and with it every other harness of the crate - from compiling.
    let mut mu: std::mem::MaybeUninit<TagIterator<&[u8], NoSpec>> = std::mem::MaybeUninit::zeroed();
    let p = mu.as_mut_ptr();
    unsafe {
        std::ptr::addr_of_mut!((*p).source).write(input);
        std::ptr::addr_of_mut!((*p).allowed_errors).write(0);
        std::ptr::addr_of_mut!((*p).max_allowed_tag_size).write(Some(4 * usize::pow(1000, 3)));
        std::ptr::addr_of_mut!((*p).buffer).write(Vec::new().into_boxed_slice());
        std::ptr::addr_of_mut!((*p).buffered_byte_length).write(0);
        std::ptr::addr_of_mut!((*p).buffer_offset).write(None);
        std::ptr::addr_of_mut!((*p).internal_buffer_position).write(0);
        std::ptr::addr_of_mut!((*p).tag_stack).write(Vec::new());
        std::ptr::addr_of_mut!((*p).emission_queue).write(VecDeque::new());
        std::ptr::addr_of_mut!((*p).last_emitted_tag_offset).write(0);
        std::ptr::addr_of_mut!((*p).has_determined_doc_path).write(false);
        std::ptr::addr_of_mut!((*p).emit_master_end_when_eof).write(true);
    }
    // tag_ids_to_buffer (a HashSet) stays zeroed: never looked at, never dropped
    let mut it: TagIterator<&[u8], NoSpec> = unsafe { mu.assume_init() };
    // any list of up to 4 classes, in any order, with repetitions
    let n = src::u8_();
    src::assume(n <= 4);
    let (a, b, c, d) = (src::u8_(), src::u8_(), src::u8_(), src::u8_());
    let all = [pick(a), pick(b), pick(c), pick(d)];
    let mut want = 0u8;
    if n > 0 { want |= bit(a); }
    if n > 1 { want |= bit(b); }
    if n > 2 { want |= bit(c); }
    if n > 3 { want |= bit(d); }
    it.allow_errors(&all[..n as usize]);
    crate::vcheck!(it.allowed_errors == want, "allow_errors sets exactly the bits of the listed classes (order and repetition do not matter; a later call replaces the mask)");
    crate::vcheck!(it.max_allowed_tag_size == Some(4_000_000_000), "allow_errors leaves the size limit in force");
    it.allow_errors(&[]);
    crate::vcheck!(it.allowed_errors == 0, "allow_errors(&[]) returns to strict mode");
    let has = src::bool_();
    let m = src::usize_();
    let lim = if has { Some(m) } else { None };
    it.set_max_allowable_tag_size(lim);
    crate::vcheck!(it.max_allowed_tag_size == lim && it.allowed_errors == 0, "set_max_allowable_tag_size stores exactly the given limit and touches nothing else");
    std::mem::forget(it);
}


fn blank_iter(input: &'static [u8]) -> TagIterator<&'static [u8], NoSpec> {
    let mut mu: std::mem::MaybeUninit<TagIterator<&[u8], NoSpec>> = std::mem::MaybeUninit::zeroed();
    let p = mu.as_mut_ptr();
    unsafe {
        std::ptr::addr_of_mut!((*p).source).write(input);
        std::ptr::addr_of_mut!((*p).allowed_errors).write(0);
        std::ptr::addr_of_mut!((*p).max_allowed_tag_size).write(None);
        std::ptr::addr_of_mut!((*p).buffer).write(Vec::new().into_boxed_slice());
        std::ptr::addr_of_mut!((*p).buffered_byte_length).write(0);
        std::ptr::addr_of_mut!((*p).buffer_offset).write(None);
        std::ptr::addr_of_mut!((*p).internal_buffer_position).write(0);
        std::ptr::addr_of_mut!((*p).tag_stack).write(Vec::new());
        std::ptr::addr_of_mut!((*p).emission_queue).write(VecDeque::new());
        std::ptr::addr_of_mut!((*p).last_emitted_tag_offset).write(0);
        std::ptr::addr_of_mut!((*p).has_determined_doc_path).write(false);
        std::ptr::addr_of_mut!((*p).emit_master_end_when_eof).write(true);
        mu.assume_init()
    }
}

/// an open-master entry, written field by field into a zeroed value (robust against fields added to ProcessingTag later)
fn mk_pt(size: EBMLSize, data_start: usize) -> ProcessingTag<NoSpec> {
    let mut mu: std::mem::MaybeUninit<ProcessingTag<NoSpec>> = std::mem::MaybeUninit::zeroed();
    let p = mu.as_mut_ptr();
    unsafe {
        std::ptr::addr_of_mut!((*p).tag).write(NoSpec);
        std::ptr::addr_of_mut!((*p).size).write(size);
        std::ptr::addr_of_mut!((*p).tag_start).write(0);
        std::ptr::addr_of_mut!((*p).data_start).write(data_start);
        mu.assume_init()
    }
}

//@K name=k_is_invalid_tag_size unwind=5 props=C05,C06,C13,C14 assembled=1
pub fn h_is_invalid_tag_size() {
    // the size-containment test, for every cursor position (before, inside and BEYOND the declared end of an open master -
    // try_recover scans past such ends), every declared size < 2^56 and up to two open masters, known or unknown
    let mut it = blank_iter(&[]);
    it.tag_stack = Vec::with_capacity(2);   // no symbolic reallocation
    let n = src::u8_();
    src::assume(n <= 2);
    let bound = 1usize << 57;
    let (d0, s0, k0) = (src::usize_(), src::usize_(), src::bool_());
    let (d1, s1, k1) = (src::usize_(), src::usize_(), src::bool_());
    let (off, pos, size) = (src::usize_(), src::usize_(), src::usize_());
    // precondition from the only call site: size = header_len + declared size, and a header has at least 2 bytes
    src::assume(d0 < bound && s0 < bound && d1 < bound && s1 < bound && off < bound && pos < bound && size < bound && size >= 2);
    if n > 0 { it.tag_stack.push(mk_pt(if k0 { Known(s0) } else { EBMLSize::Unknown }, d0)); }
    if n > 1 { it.tag_stack.push(mk_pt(if k1 { Known(s1) } else { EBMLSize::Unknown }, d1)); }
    it.buffer_offset = Some(off);
    it.internal_buffer_position = pos;
    let r = it.is_invalid_tag_size(size);
    let cur = off + pos;
    let want = (n > 0 && k0 && d0 + s0 < cur + size) || (n > 1 && k1 && d1 + s1 < cur + size);
    crate::vcheck!(r == want, "is_invalid_tag_size(size) = some open known-size master ends before cursor + size; no overflow or panic wherever the cursor stands (also beyond a master's declared end)");
    std::mem::forget(it);
}
