// verif_spec.rs — executable specification vocabulary (DESIGN.md §3).
//
// Injected into the overlay as `crate::verif_spec`.  Everything here is derived from RFC 8794 and the
// property statements in /verif/properties.jsonl, never from the code under verification.  The
// functions are deliberately written over u128/i128 so that no intermediate value can wrap, and with
// leading_zeros / explicit big-endian folds rather than the ilog2 / shift idioms the code uses.
#![allow(dead_code)]

use crate::errors::tool::ToolError;

// ---------------------------------------------------------------------------------------------
// input source: kani::any() under Kani, recorded bytes under native replay (--cfg verif_rt)
// ---------------------------------------------------------------------------------------------
/// `vcheck!(cond, "clause text")`: an assertion whose literal text Kani reports as the check description;
/// under native replay it records the clause instead of panicking.
#[cfg(kani)]
#[macro_export]
macro_rules! vcheck { ($c:expr, $m:literal) => { assert!($c, $m) }; }
#[cfg(not(kani))]
#[macro_export]
macro_rules! vcheck { ($c:expr, $m:literal) => { $crate::verif_spec::src::check($c, $m) }; }

#[cfg(kani)]
pub mod src {
    pub fn u8_() -> u8 { kani::any() }
    pub fn u16_() -> u16 { kani::any() }
    pub fn u32_() -> u32 { kani::any() }
    pub fn u64_() -> u64 { kani::any() }
    pub fn i64_() -> i64 { kani::any() }
    pub fn usize_() -> usize { kani::any() }
    pub fn bool_() -> bool { kani::any() }
    pub fn assume(c: bool) { kani::assume(c) }
    pub fn check(c: bool, _what: &'static str) { assert!(c, "{}", _what) }
    /// replay-only check: under Kani the same predicate is the function's `kani::ensures` clause
    pub fn check_rt(_c: bool, _what: &'static str) {}
    pub fn cover(_c: bool) { kani::cover!(_c) }
}

#[cfg(not(kani))]
pub mod src {
    // Native replay: values are popped from a thread-local queue of little-endian byte vectors, in
    // the order Kani's concrete playback printed them (one vector per primitive kani::any()).
    use std::cell::RefCell;
    thread_local! {
        pub static QUEUE: RefCell<std::collections::VecDeque<Vec<u8>>> = RefCell::new(Default::default());
        pub static FAILED: RefCell<Vec<&'static str>> = RefCell::new(Vec::new());
        pub static ASSUME_FAILED: RefCell<bool> = RefCell::new(false);
    }
    pub fn load(vals: Vec<Vec<u8>>) {
        QUEUE.with(|q| *q.borrow_mut() = vals.into_iter().collect());
        FAILED.with(|f| f.borrow_mut().clear());
        ASSUME_FAILED.with(|f| *f.borrow_mut() = false);
    }
    fn pop(n: usize) -> Vec<u8> {
        let mut v = QUEUE.with(|q| q.borrow_mut().pop_front()).unwrap_or_default();
        v.resize(n, 0);
        v
    }
    pub fn u8_() -> u8 { pop(1)[0] }
    pub fn u16_() -> u16 { let v = pop(2); u16::from_le_bytes([v[0], v[1]]) }
    pub fn u32_() -> u32 { let v = pop(4); u32::from_le_bytes([v[0], v[1], v[2], v[3]]) }
    pub fn u64_() -> u64 { let v = pop(8); let mut a = [0u8; 8]; a.copy_from_slice(&v); u64::from_le_bytes(a) }
    pub fn i64_() -> i64 { u64_() as i64 }
    pub fn usize_() -> usize { u64_() as usize }
    pub fn bool_() -> bool { pop(1)[0] != 0 }
    pub fn assume(c: bool) { if !c { ASSUME_FAILED.with(|f| *f.borrow_mut() = true); } }
    pub fn check(c: bool, what: &'static str) {
        let skipped = ASSUME_FAILED.with(|f| *f.borrow());
        if !c && !skipped { FAILED.with(|f| f.borrow_mut().push(what)); }
    }
    pub fn cover(_c: bool) {}
    pub fn check_rt(c: bool, what: &'static str) { check(c, what) }
    pub fn failures() -> Vec<&'static str> { FAILED.with(|f| f.borrow().clone()) }
    pub fn assumption_violated() -> bool { ASSUME_FAILED.with(|f| *f.borrow()) }
}

pub fn any_arr9() -> [u8; 9] {
    [src::u8_(), src::u8_(), src::u8_(), src::u8_(), src::u8_(), src::u8_(), src::u8_(), src::u8_(), src::u8_()]
}

/// A symbolic prefix (length 0..=9) of a symbolic 9-byte array.
pub fn any_len9() -> usize {
    let n = src::usize_();
    src::assume(n <= 9);
    n
}

// ---------------------------------------------------------------------------------------------
// vints (RFC 8794 §4)
// ---------------------------------------------------------------------------------------------

/// 2^n as u128 (n < 128).
pub fn pow2(n: usize) -> u128 { 1u128 << n }
/// 2^n as u64 (n < 64).
pub fn pow2_64(n: usize) -> u64 { 1u64 << n }

/// VINT_WIDTH + 1 of a first byte != 0: number of leading zero bits plus one.
pub fn vint_len(b0: u8) -> usize { b0.leading_zeros() as usize + 1 }

/// Big-endian value of at most 16 bytes.
pub fn be(s: &[u8]) -> u128 {
    let mut v = 0u128;
    let mut i = 0usize;
    while i < s.len() && i < 16 {
        v = (v << 8) | s[i] as u128;
        i += 1;
    }
    v
}
/// Big-endian value of at most 8 bytes (no bit is lost for |s| <= 8).
pub fn be64(s: &[u8]) -> u64 {
    let mut v = 0u64;
    let mut i = 0usize;
    while i < s.len() && i < 8 {
        v = (v << 8) | s[i] as u64;
        i += 1;
    }
    v
}

#[derive(Clone, Copy, PartialEq, Eq, Debug)]
pub enum Dec<T> { NeedMore, Overflow, Val(T, usize) }

/// Decoding of the vint at the start of `s`.
pub fn dec_vint(s: &[u8]) -> Dec<u64> {
    if s.is_empty() { return Dec::NeedMore; }
    if s[0] == 0 { return Dec::Overflow; }
    let n = vint_len(s[0]);
    if s.len() < n { return Dec::NeedMore; }
    if n > 8 { return Dec::Overflow; } // unreachable: s[0] != 0
    let raw = be64(&s[..n]);
    Dec::Val(raw - pow2_64(7 * n), n) // the marker bit is bit 7n of the n-byte big-endian value
}

/// Decoding of the signed vint at the start of `s`: VINT_DATA read as two's complement in 7n bits.
pub fn dec_svint(s: &[u8]) -> Dec<i64> {
    match dec_vint(s) {
        Dec::NeedMore => Dec::NeedMore,
        Dec::Overflow => Dec::Overflow,
        Dec::Val(d, n) => {
            let half = pow2_64(7 * n - 1);
            // two's complement in 7n bits: values >= 2^(7n-1) stand for d - 2^(7n)
            let v = if d >= half { (d as i64) - ((half as i64) * 2) } else { d as i64 };
            Dec::Val(v, n)
        }
    }
}

/// `out` is the width-`w` vint encoding of `x` (x < 2^(7w), 1 <= w <= 8).
pub fn is_enc_vint(out: &[u8], x: u64, w: usize) -> bool {
    1 <= w && w <= 8 && out.len() == w && x < pow2_64(7 * w) && be64(out) == x + pow2_64(7 * w)
}

/// least width in 1..=8 with x < 2^(7w); 9 when there is none.
pub fn min_w(x: u64) -> usize {
    if x < (1 << 7) { 1 } else if x < (1 << 14) { 2 } else if x < (1 << 21) { 3 } else if x < (1 << 28) { 4 }
    else if x < (1 << 35) { 5 } else if x < (1 << 42) { 6 } else if x < (1 << 49) { 7 } else if x < (1 << 56) { 8 } else { 9 }
}

/// x lies in the two's-complement range of 7w bits, i.e. -2^(7w-1) <= x < 2^(7w-1).
pub fn fits_signed(x: i64, w: usize) -> bool {
    let h = pow2_64(7 * w - 1) as i64; // w <= 8: h <= 2^55
    -h <= x && x < h
}
/// x lies strictly inside that range (the encoders' acceptance condition in C15).
pub fn fits_signed_strict(x: i64, w: usize) -> bool {
    let h = pow2_64(7 * w - 1) as i64;
    -h < x && x < h
}
pub fn min_sw(x: i64) -> usize {
    let mut w = 1;
    while w <= 8 { if fits_signed(x, w) { return w; } w += 1; }
    9
}
/// `out` is the width-`w` signed vint encoding of `x`.
pub fn is_enc_svint(out: &[u8], x: i64, w: usize) -> bool {
    // x mod 2^(7w) (two's complement truncation to 7w bits) plus the marker bit 2^(7w)
    if !(1 <= w && w <= 8 && out.len() == w) { return false; }
    let m = pow2_64(7 * w);
    be64(out) == ((x as u64) & (m - 1)) + m
}

/// C15: "the well-formed-id predicate is true exactly for values whose byte length matches their
/// length marker".
pub fn id_ok(v: u64) -> bool {
    if v == 0 { return false; }
    let n = 8 - (v.leading_zeros() as usize) / 8; // byte length without leading zero bytes
    let top = (v >> (8 * (n - 1))) as u8;
    vint_len(top) == n
}

/// number of bytes `id` occupies when written without leading zero bytes
pub fn id_len(v: u64) -> usize { if v == 0 { 0 } else { 8 - (v.leading_zeros() as usize) / 8 } }

// ---------------------------------------------------------------------------------------------
// payload decoders (C16)
// ---------------------------------------------------------------------------------------------
pub fn dec_uint(s: &[u8]) -> u64 { be64(s) } // |s| <= 8
pub fn dec_int(s: &[u8]) -> i64 {
    if s.is_empty() { return 0; }
    let n = s.len(); // 1..=8
    let v = be64(s);
    if n >= 8 { return v as i64; } // two's complement in 64 bits is the i64 bit pattern
    let half = pow2_64(8 * n - 1);
    if v >= half { (v as i64) - ((half as i64) * 2) } else { v as i64 }
}
/// width the writer must use for an unsigned payload: minimal of 1/2/4/8
pub fn uint_width(v: u64) -> usize { if v < 256 { 1 } else if v < 65536 { 2 } else if v < (1u64 << 32) { 4 } else { 8 } }
pub fn int_width(v: i64) -> usize {
    if -128 <= v && v < 128 { 1 } else if -32768 <= v && v < 32768 { 2 }
    else if -(1i64 << 31) <= v && v < (1i64 << 31) { 4 } else { 8 }
}

// ---------------------------------------------------------------------------------------------
// size fields (C01/C07/C17)
// ---------------------------------------------------------------------------------------------
/// VINT_DATA of width w is all ones <=> reserved "unknown size"
pub fn is_all_ones(size: u64, w: usize) -> bool { 1 <= w && w <= 8 && size == pow2_64(7 * w) - 1 }

// ---------------------------------------------------------------------------------------------
// postconditions used by the injected kani::ensures attributes
// ---------------------------------------------------------------------------------------------
pub fn post_read_vint(buffer: &[u8], r: &Result<Option<(u64, usize)>, ToolError>) -> bool {
    match (dec_vint(buffer), r) {
        (Dec::NeedMore, Ok(None)) => true,
        (Dec::Overflow, Err(ToolError::ReadVintOverflow)) => true,
        (Dec::Val(v, n), Ok(Some((rv, rn)))) => v == *rv && n == *rn && *rn <= buffer.len(),
        _ => false,
    }
}
pub fn post_read_signed_vint(buffer: &[u8], r: &Result<Option<(i64, usize)>, ToolError>) -> bool {
    match (dec_svint(buffer), r) {
        (Dec::NeedMore, Ok(None)) => true,
        (Dec::Overflow, Err(ToolError::ReadVintOverflow)) => true,
        (Dec::Val(v, n), Ok(Some((rv, rn)))) => v == *rv && n == *rn && *rn <= buffer.len(),
        _ => false,
    }
}
pub fn post_check_size_u64(val: u64, w: usize, r: &Result<(), ToolError>) -> bool {
    match r {
        Ok(()) => val < pow2_64(7 * w),
        Err(ToolError::WriteVintOverflow(v)) => *v == val && val >= pow2_64(7 * w),
        _ => false,
    }
}
pub fn post_check_size_i64(val: i64, w: usize, r: &Result<(), ToolError>) -> bool {
    match r {
        Ok(()) => fits_signed_strict(val, w),
        Err(ToolError::WriteSignedVintOverflow(v)) => *v == val && !fits_signed_strict(val, w),
        _ => false,
    }
}
pub fn post_arr_to_u64(arr: &[u8], r: &Result<u64, ToolError>) -> bool {
    match r {
        Ok(v) => arr.len() <= 8 && *v == dec_uint(arr),
        Err(ToolError::ReadU64Overflow(a)) => arr.len() > 8 && a.as_slice() == arr,
        _ => false,
    }
}
pub fn post_arr_to_i64(arr: &[u8], r: &Result<i64, ToolError>) -> bool {
    match r {
        Ok(v) => arr.len() <= 8 && *v == dec_int(arr),
        Err(ToolError::ReadI64Overflow(a)) => arr.len() > 8 && a.as_slice() == arr,
        _ => false,
    }
}
pub fn post_arr_to_f64(arr: &[u8], r: &Result<f64, ToolError>) -> bool {
    match r {
        Ok(v) => {
            if arr.len() == 8 { v.to_bits() == be64(arr) }
            else if arr.len() == 4 {
                // the IEEE-754 binary32 value: representable in binary32 and rounding back to the same bits
                let b = be64(arr) as u32;
                let f = f32::from_bits(b);
                if f.is_nan() { v.is_nan() } else { (*v as f32).to_bits() == b && ((*v as f32) as f64).to_bits() == v.to_bits() }
            } else { false }
        }
        Err(ToolError::ReadF64Mismatch(a)) => arr.len() != 4 && arr.len() != 8 && a.as_slice() == arr,
        _ => false,
    }
}
