// verif_writer.rs — child module of src/tag_writer.rs in the overlay (reaches private fields/methods).
//
// Contracts of the writer's per-type element encoders, for EVERY value (u64 / i64 / f64 bit pattern),
// every id and every size width; loops are bounded by the id / vint width (<= 8), unwind 10 with
// unwinding assertions on => complete in the value.  The state frame (prior buffer contents, open
// masters) is covered by the bounded unit (bx), see DESIGN.md §4.
#![allow(dead_code, unused_imports)]

use super::*;
use crate::verif_spec as sp;
use crate::verif_spec::src;
use crate::tools;

pub struct Sink;
impl std::io::Write for Sink {
    fn write(&mut self, b: &[u8]) -> std::io::Result<usize> { Ok(b.len()) }
    fn flush(&mut self) -> std::io::Result<()> { Ok(()) }
}

/// stub for <ToolError as Display>::fmt — formatting is not under contract (listed as an assumption)
pub fn stub_fmt(_e: &ToolError, _f: &mut std::fmt::Formatter<'_>) -> std::fmt::Result { Ok(()) }

/// Element layout `id_bytes(id) ++ size_field(pl, sl) ++ payload`, with every slice index concrete
/// under its branch (symbolic indexing into the heap buffer is what makes CBMC blow up here).
/// `payload_be` is the big-endian value of the `pl` payload bytes (pl in {1,2,4,8}).
pub fn elem_ok(wb: &[u8], id: u64, sl: usize, pl: usize, payload_be: u64) -> bool {
    let il = sp::id_len(id);
    if wb.len() != il + sl + pl { return false; }
    let mut ok = false;
    let mut ilc = 0usize;
    while ilc <= 8 {
        if il == ilc {
            let mut v = 0u64; let mut i = 0usize;
            while i < ilc { v = (v << 8) | wb[i] as u64; i += 1; }
            let mut s = 0u64; let mut j = 0usize;
            while j < sl { s = (s << 8) | wb[ilc + j] as u64; j += 1; }
            let mut plc = 1usize;
            while plc <= 8 {
                if pl == plc {
                    let mut p = 0u64; let mut k = 0usize;
                    while k < plc { p = (p << 8) | wb[ilc + sl + k] as u64; k += 1; }
                    // id bytes = big-endian id without leading zero bytes; size field = pl + marker bit 2^(7 sl)
                    ok = v == id && (ilc == 0 || wb[0] != 0) && s == (pl as u64) + sp::pow2_64(7 * sl) && p == payload_be;
                }
                plc *= 2;
            }
        }
        ilc += 1;
    }
    ok
}

fn fresh() -> TagWriter<Sink> {
    let mut w = TagWriter::new(Sink);
    // capacity is not observable; pre-reserving avoids symbolic reallocations in CBMC
    w.working_buffer = Vec::with_capacity(32);
    w
}

/// requested width 0 means "default": payload sizes 1,2,4,8 need one size byte
fn sl_of(w: usize) -> usize { if w == 0 { 1 } else { w } }

/// A: every value, a fixed 4-byte id.  B: every id, a fixed value.  The static frame check
/// `S:leaf_id_noninterference` (vlib/static.py) shows that `id` is only read by the first statement
/// (the id-byte emission), which is what makes A and B together cover the product.
const ID_A: u64 = 0x1a45dfa3;

fn uint_case<const W: usize>(id: u64, data: u64) {
    let mut w = fresh();
    let r = w.write_unsigned_int_tag::<W>(id, &data);
    crate::vcheck!(r.is_ok(), "write_unsigned_int_tag never fails for size widths 0..=8 (payload sizes 1,2,4,8 fit every width)");
    let pl = sp::uint_width(data);
    crate::vcheck!(elem_ok(&w.working_buffer, id, sl_of(W), pl, data), "unsigned element = id bytes ++ size field of exactly the requested width (one byte by default) ++ big-endian payload of the minimal 1/2/4/8 width");
    crate::vcheck!(w.open_tags.is_empty(), "element writers do not touch the open-master stack");
}

fn int_case<const W: usize>(id: u64, data: i64) {
    let mut w = fresh();
    let r = w.write_signed_int_tag::<W>(id, &data);
    crate::vcheck!(r.is_ok(), "write_signed_int_tag never fails for size widths 0..=8");
    let pl = sp::int_width(data);
    let be = if pl == 8 { data as u64 } else { (data as u64) & (sp::pow2_64(8 * pl) - 1) };
    crate::vcheck!(elem_ok(&w.working_buffer, id, sl_of(W), pl, be), "signed element = id bytes ++ size field of exactly the requested width ++ big-endian two's-complement payload of the minimal 1/2/4/8 width");
    crate::vcheck!(w.open_tags.is_empty(), "element writers do not touch the open-master stack");
}

// The payload decoders' contracts (k_arr_to_u64 / k_arr_to_i64 / k_arr_to_f64: result = dec_uint / dec_int /
// from_bits(be64)) compose with `elem_ok`'s payload clause (be64(payload) = value truncated to pl bytes) through the
// lemma below; calling the decoders on a symbolic sub-slice of the heap buffer here is what CBMC cannot afford.
//@K name=k_lemma_payload_inverse unwind=10 props=C16,C01,C02
pub fn h_lemma_payload_inverse() {
    let u = src::u64_();
    let pl = sp::uint_width(u);
    let b = u.to_be_bytes();
    // minimal width keeps the value: the dropped leading bytes are zero
    crate::vcheck!(pl == 8 || u < sp::pow2_64(8 * pl), "lemma: uint_width(v) bytes hold v");
    crate::vcheck!(sp::dec_uint(&b[8 - pl..]) == u, "lemma: dec_uint(BE_{uint_width(v)}(v)) = v");
    let i = src::i64_();
    let il = sp::int_width(i);
    let ib = i.to_be_bytes();
    crate::vcheck!(sp::dec_int(&ib[8 - il..]) == i, "lemma: dec_int(two's complement BE_{int_width(v)}(v)) = v");
    let be = if il == 8 { i as u64 } else { (i as u64) & (sp::pow2_64(8 * il) - 1) };
    crate::vcheck!(sp::be64(&ib[8 - il..]) == be, "lemma: the low int_width(v) bytes of v are v mod 2^(8 pl)");
}

fn float_case<const W: usize>(id: u64, bits: u64) {
    let data = f64::from_bits(bits);
    let mut w = fresh();
    let r = w.write_float_tag::<W>(id, &data);
    crate::vcheck!(r.is_ok(), "write_float_tag never fails for size widths 0..=8");
    crate::vcheck!(elem_ok(&w.working_buffer, id, sl_of(W), 8, bits), "float element = id bytes ++ size field of exactly the requested width ++ the 8 big-endian bytes of the IEEE-754 binary64 pattern");
}

//@K name=k_w_uint_0_val unwind=10 props=C16,C01,C09,C02 stub=tool_fmt
pub fn h_w_uint_0_val() { uint_case::<0>(ID_A, src::u64_()) }
//@K name=k_w_uint_0_id unwind=10 props=C16,C01,C09 stub=tool_fmt
pub fn h_w_uint_0_id() { uint_case::<0>(src::u64_(), 0x12u64) }
//@K name=k_w_uint_1_val unwind=10 props=C16,C01,C09 tier=thorough stub=tool_fmt
pub fn h_w_uint_1_val() { uint_case::<1>(ID_A, src::u64_()) }
//@K name=k_w_uint_1_id unwind=10 props=C16,C01,C09 tier=thorough stub=tool_fmt
pub fn h_w_uint_1_id() { uint_case::<1>(src::u64_(), 0x12u64) }
//@K name=k_w_uint_2_val unwind=10 props=C16,C01,C09 tier=thorough stub=tool_fmt
pub fn h_w_uint_2_val() { uint_case::<2>(ID_A, src::u64_()) }
//@K name=k_w_uint_2_id unwind=10 props=C16,C01,C09 tier=thorough stub=tool_fmt
pub fn h_w_uint_2_id() { uint_case::<2>(src::u64_(), 0x12u64) }
//@K name=k_w_uint_3_val unwind=10 props=C16,C01,C09 stub=tool_fmt
pub fn h_w_uint_3_val() { uint_case::<3>(ID_A, src::u64_()) }
//@K name=k_w_uint_3_id unwind=10 props=C16,C01,C09 tier=thorough stub=tool_fmt
pub fn h_w_uint_3_id() { uint_case::<3>(src::u64_(), 0x12u64) }
//@K name=k_w_uint_4_val unwind=10 props=C16,C01,C09 tier=thorough stub=tool_fmt
pub fn h_w_uint_4_val() { uint_case::<4>(ID_A, src::u64_()) }
//@K name=k_w_uint_4_id unwind=10 props=C16,C01,C09 tier=thorough stub=tool_fmt
pub fn h_w_uint_4_id() { uint_case::<4>(src::u64_(), 0x12u64) }
//@K name=k_w_uint_5_val unwind=10 props=C16,C01,C09 tier=thorough stub=tool_fmt
pub fn h_w_uint_5_val() { uint_case::<5>(ID_A, src::u64_()) }
//@K name=k_w_uint_5_id unwind=10 props=C16,C01,C09 tier=thorough stub=tool_fmt
pub fn h_w_uint_5_id() { uint_case::<5>(src::u64_(), 0x12u64) }
//@K name=k_w_uint_6_val unwind=10 props=C16,C01,C09 tier=thorough stub=tool_fmt
pub fn h_w_uint_6_val() { uint_case::<6>(ID_A, src::u64_()) }
//@K name=k_w_uint_6_id unwind=10 props=C16,C01,C09 tier=thorough stub=tool_fmt
pub fn h_w_uint_6_id() { uint_case::<6>(src::u64_(), 0x12u64) }
//@K name=k_w_uint_7_val unwind=10 props=C16,C01,C09 tier=thorough stub=tool_fmt
pub fn h_w_uint_7_val() { uint_case::<7>(ID_A, src::u64_()) }
//@K name=k_w_uint_7_id unwind=10 props=C16,C01,C09 tier=thorough stub=tool_fmt
pub fn h_w_uint_7_id() { uint_case::<7>(src::u64_(), 0x12u64) }
//@K name=k_w_uint_8_val unwind=10 props=C16,C01,C09 tier=thorough stub=tool_fmt
pub fn h_w_uint_8_val() { uint_case::<8>(ID_A, src::u64_()) }
//@K name=k_w_uint_8_id unwind=10 props=C16,C01,C09 tier=thorough stub=tool_fmt
pub fn h_w_uint_8_id() { uint_case::<8>(src::u64_(), 0x12u64) }
//@K name=k_w_int_0_val unwind=10 props=C16,C01,C09,C02 stub=tool_fmt
pub fn h_w_int_0_val() { int_case::<0>(ID_A, src::i64_()) }
//@K name=k_w_int_0_id unwind=10 props=C16,C01,C09 tier=thorough stub=tool_fmt
pub fn h_w_int_0_id() { int_case::<0>(src::u64_(), -0x12i64) }
//@K name=k_w_int_1_val unwind=10 props=C16,C01,C09 tier=thorough stub=tool_fmt
pub fn h_w_int_1_val() { int_case::<1>(ID_A, src::i64_()) }
//@K name=k_w_int_1_id unwind=10 props=C16,C01,C09 tier=thorough stub=tool_fmt
pub fn h_w_int_1_id() { int_case::<1>(src::u64_(), -0x12i64) }
//@K name=k_w_int_2_val unwind=10 props=C16,C01,C09 stub=tool_fmt
pub fn h_w_int_2_val() { int_case::<2>(ID_A, src::i64_()) }
//@K name=k_w_int_2_id unwind=10 props=C16,C01,C09 tier=thorough stub=tool_fmt
pub fn h_w_int_2_id() { int_case::<2>(src::u64_(), -0x12i64) }
//@K name=k_w_int_3_val unwind=10 props=C16,C01,C09 tier=thorough stub=tool_fmt
pub fn h_w_int_3_val() { int_case::<3>(ID_A, src::i64_()) }
//@K name=k_w_int_3_id unwind=10 props=C16,C01,C09 tier=thorough stub=tool_fmt
pub fn h_w_int_3_id() { int_case::<3>(src::u64_(), -0x12i64) }
//@K name=k_w_int_4_val unwind=10 props=C16,C01,C09 tier=thorough stub=tool_fmt
pub fn h_w_int_4_val() { int_case::<4>(ID_A, src::i64_()) }
//@K name=k_w_int_4_id unwind=10 props=C16,C01,C09 tier=thorough stub=tool_fmt
pub fn h_w_int_4_id() { int_case::<4>(src::u64_(), -0x12i64) }
//@K name=k_w_int_5_val unwind=10 props=C16,C01,C09 tier=thorough stub=tool_fmt
pub fn h_w_int_5_val() { int_case::<5>(ID_A, src::i64_()) }
//@K name=k_w_int_5_id unwind=10 props=C16,C01,C09 tier=thorough stub=tool_fmt
pub fn h_w_int_5_id() { int_case::<5>(src::u64_(), -0x12i64) }
//@K name=k_w_int_6_val unwind=10 props=C16,C01,C09 tier=thorough stub=tool_fmt
pub fn h_w_int_6_val() { int_case::<6>(ID_A, src::i64_()) }
//@K name=k_w_int_6_id unwind=10 props=C16,C01,C09 tier=thorough stub=tool_fmt
pub fn h_w_int_6_id() { int_case::<6>(src::u64_(), -0x12i64) }
//@K name=k_w_int_7_val unwind=10 props=C16,C01,C09 tier=thorough stub=tool_fmt
pub fn h_w_int_7_val() { int_case::<7>(ID_A, src::i64_()) }
//@K name=k_w_int_7_id unwind=10 props=C16,C01,C09 tier=thorough stub=tool_fmt
pub fn h_w_int_7_id() { int_case::<7>(src::u64_(), -0x12i64) }
//@K name=k_w_int_8_val unwind=10 props=C16,C01,C09 tier=thorough stub=tool_fmt
pub fn h_w_int_8_val() { int_case::<8>(ID_A, src::i64_()) }
//@K name=k_w_int_8_id unwind=10 props=C16,C01,C09 tier=thorough stub=tool_fmt
pub fn h_w_int_8_id() { int_case::<8>(src::u64_(), -0x12i64) }
//@K name=k_w_float_0_val unwind=10 props=C16,C01,C09,C02 stub=tool_fmt
pub fn h_w_float_0_val() { float_case::<0>(ID_A, src::u64_()) }
//@K name=k_w_float_0_id unwind=10 props=C16,C01,C09 stub=tool_fmt
pub fn h_w_float_0_id() { float_case::<0>(src::u64_(), 0x400921fb54442d18u64) }
//@K name=k_w_float_1_val unwind=10 props=C16,C01,C09 stub=tool_fmt
pub fn h_w_float_1_val() { float_case::<1>(ID_A, src::u64_()) }
//@K name=k_w_float_1_id unwind=10 props=C16,C01,C09 tier=thorough stub=tool_fmt
pub fn h_w_float_1_id() { float_case::<1>(src::u64_(), 0x400921fb54442d18u64) }
//@K name=k_w_float_2_val unwind=10 props=C16,C01,C09 tier=thorough stub=tool_fmt
pub fn h_w_float_2_val() { float_case::<2>(ID_A, src::u64_()) }
//@K name=k_w_float_2_id unwind=10 props=C16,C01,C09 tier=thorough stub=tool_fmt
pub fn h_w_float_2_id() { float_case::<2>(src::u64_(), 0x400921fb54442d18u64) }
//@K name=k_w_float_3_val unwind=10 props=C16,C01,C09 tier=thorough stub=tool_fmt
pub fn h_w_float_3_val() { float_case::<3>(ID_A, src::u64_()) }
//@K name=k_w_float_3_id unwind=10 props=C16,C01,C09 tier=thorough stub=tool_fmt
pub fn h_w_float_3_id() { float_case::<3>(src::u64_(), 0x400921fb54442d18u64) }
//@K name=k_w_float_4_val unwind=10 props=C16,C01,C09 tier=thorough stub=tool_fmt
pub fn h_w_float_4_val() { float_case::<4>(ID_A, src::u64_()) }
//@K name=k_w_float_4_id unwind=10 props=C16,C01,C09 tier=thorough stub=tool_fmt
pub fn h_w_float_4_id() { float_case::<4>(src::u64_(), 0x400921fb54442d18u64) }
//@K name=k_w_float_5_val unwind=10 props=C16,C01,C09 tier=thorough stub=tool_fmt
pub fn h_w_float_5_val() { float_case::<5>(ID_A, src::u64_()) }
//@K name=k_w_float_5_id unwind=10 props=C16,C01,C09 tier=thorough stub=tool_fmt
pub fn h_w_float_5_id() { float_case::<5>(src::u64_(), 0x400921fb54442d18u64) }
//@K name=k_w_float_6_val unwind=10 props=C16,C01,C09 tier=thorough stub=tool_fmt
pub fn h_w_float_6_val() { float_case::<6>(ID_A, src::u64_()) }
//@K name=k_w_float_6_id unwind=10 props=C16,C01,C09 tier=thorough stub=tool_fmt
pub fn h_w_float_6_id() { float_case::<6>(src::u64_(), 0x400921fb54442d18u64) }
//@K name=k_w_float_7_val unwind=10 props=C16,C01,C09 tier=thorough stub=tool_fmt
pub fn h_w_float_7_val() { float_case::<7>(ID_A, src::u64_()) }
//@K name=k_w_float_7_id unwind=10 props=C16,C01,C09 tier=thorough stub=tool_fmt
pub fn h_w_float_7_id() { float_case::<7>(src::u64_(), 0x400921fb54442d18u64) }
//@K name=k_w_float_8_val unwind=10 props=C16,C01,C09 stub=tool_fmt
pub fn h_w_float_8_val() { float_case::<8>(ID_A, src::u64_()) }
//@K name=k_w_float_8_id unwind=10 props=C16,C01,C09 tier=thorough stub=tool_fmt
pub fn h_w_float_8_id() { float_case::<8>(src::u64_(), 0x400921fb54442d18u64) }

// ---- size fields (C01): never the reserved all-ones pattern, decodable, for EVERY length < 2^56 ------

//@K name=k_size_vint unwind=10 props=C01,C09,C19
pub fn h_size_vint() {
    // The decode side (read_vint + EBMLSize::new give Known(n) for an encoding that is not all-ones) follows from
    // k_lemma_unsigned_roundtrip + k_read_vint + k_ebml_size_new; calling the decoders here only makes CBMC slower.
    let n = src::u64_();
    let r = size_vint(n);
    let ok = match &r {
        Ok(out) => {
            let sl = out.len();
            1 <= sl && sl <= 8 && sp::is_enc_vint(out, n, sl) && !sp::is_all_ones(n, sl)
                && (sl == 1 || n >= sp::pow2_64(7 * (sl - 1)) - 1) // shortest width that is not the reserved pattern
        }
        Err(ToolError::WriteVintOverflow(v)) => *v == n && n >= (1u64 << 56) - 1,
        _ => false,
    };
    crate::vcheck!(ok, "size_vint(n): the shortest vint of n that is not the reserved all-ones pattern, for every u64 n; Err exactly for n >= 2^56-1");
}

fn size_wl<const L: usize>(n: u64) -> bool {
    match size_vint_with_length::<L>(n) {
        Ok(out) => sp::is_enc_vint(&out, n, L) && !sp::is_all_ones(n, L),
        Err(ToolError::WriteVintOverflow(v)) => v == n && n >= sp::pow2_64(7 * L) - 1,
        _ => false,
    }
}
//@K name=k_size_vint_with_length unwind=10 props=C01,C09,C19
pub fn h_size_vint_with_length() {
    let n = src::u64_();
    let w = src::usize_();
    src::assume(1 <= w && w <= 8);
    let ok = match w { 1 => size_wl::<1>(n), 2 => size_wl::<2>(n), 3 => size_wl::<3>(n), 4 => size_wl::<4>(n), 5 => size_wl::<5>(n), 6 => size_wl::<6>(n), 7 => size_wl::<7>(n), _ => size_wl::<8>(n) };
    crate::vcheck!(ok, "size_vint_with_length::<w>(n): exactly width w and not the reserved pattern; Err exactly when n >= 2^(7w)-1, for every u64 n and w in 1..=8");
}

//@K name=k_lemma_size_field_decodes unwind=10 props=C01,C09
pub fn h_lemma_size_field_decodes() {
    // lemma over the spec functions + the real decoders: any width-w encoding of n that is not all-ones decodes to Known(n)
    let arr = sp::any_arr9();
    let n = src::u64_();
    let w = src::usize_();
    src::assume(1 <= w && w <= 8);
    src::assume(sp::is_enc_vint(&arr[..w], n, w) && !sp::is_all_ones(n, w));
    let ok = matches!(tools::read_vint(&arr[..]), Ok(Some((v, l))) if v == n && l == w)
        && crate::tag_iterator_util::EBMLSize::new(n, w) == Known(n as usize);
    crate::vcheck!(ok, "lemma: a size field produced by the writer (width w, not all-ones) is read back as Known(n) by read_vint + EBMLSize::new");
}
