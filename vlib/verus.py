"""engine verus (filled in below)"""


def run_units(ctx):
    return
