"""Engine V: Verus on functions extracted mechanically from /repo on every run (DESIGN.md §2.3).

A unit (contracts/verus/<unit>.toml) lists
  * items copied VERBATIM from /repo (enums, structs, fns), located by name / enclosing-item scope;
  * a closed list of declared rewrites (R1 trait-parameter collapse, R2 matches!-ref, R4 outlining of an
    exact expression into a helper with an assumed contract) — every instance is logged;
  * the contract text woven around the verbatim code: named return value, requires/ensures/decreases,
    loop invariants keyed by loop ordinal, proof blocks anchored before an exact source line;
  * a prelude (spec functions = the oracle, trait interface, helper declarations).
Weaving inserts ghost text only.  Faithfulness is checked on every run: erasing the inserted text and
reverting the logged replacements must reproduce the original item text exactly.
Results: per-function success from Verus' JSON (`function-breakdown`) -> one obligation per function
under contract; failures carry Verus' message and the woven clause at the reported line.
"""
import hashlib
import json
import os
import re
import subprocess
import time
import tomllib

from . import rustlex
from .overlay import REPO, rd, AnchorLost
from .report import Obligation

VERIF = os.path.dirname(os.path.dirname(os.path.abspath(__file__)))


INV_NOTE = ('a STRUCTURAL part of the proof script (a loop invariant that describes how this particular loop works rather than what it must '
            'achieve, or a hint assertion woven into the body) does not hold for this code, so every other message about this function is unreliable: '
            'the proof no longer fits the code (a re-implementation of the loop) or the loop is wrong; undecided here, the bounded '
            'units decide.  ')


def _only_structural(errs, unit):
    """True iff some loop invariant failed and every failed invariant is one the unit declares structural (`structural_invariants`:
    substrings of invariant text that describe the implementation of a loop rather than the abstraction it maintains).  A failing
    semantic invariant (abstract state preserved, value = spec function of the prefix, ...) is a violation like a failing postcondition."""
    pats = unit.get('structural_invariants', [])
    sem_asserts = unit.get('semantic_asserts', [])
    def code_of(e):
        return ' '.join(m.group(1).strip() for m in re.finditer(r'^\s*\d+ \|(.*)$', e, re.M))
    real = [e for e in errs if e.startswith('error') and 'aborting due to' not in e]
    inv = [e for e in real if 'invariant not satisfied' in e]
    if inv:
        return all(any(p in code_of(e) for p in pats) for e in inv)
    # no invariant failed.  If the ONLY messages are failed `assert`s of proof hints (ghost text woven into the body to guide the
    # solver; not statements of the contract), the proof script does not fit the code any more: undecided.  An assert that
    # carries the contract itself (`semantic_asserts`) is a violation like a postcondition.
    if real and all('assertion failed' in e for e in real):
        return not any(any(p in code_of(e) for p in sem_asserts) for e in real)
    return False


class Unsupported(Exception):
    pass


def find_item(src, kind, name):
    """span (start_of_first_attr_line, end) of `enum|struct|trait NAME {...}` / `const NAME ...;`"""
    m = rustlex.mask(src)
    if kind == 'consts':
        # every top-level `const NAME: T = ..;` of the file (so that a newly introduced constant does not break extraction)
        spans = [(mm.start(), mm.end()) for mm in re.finditer(r'^(pub(\([^)]*\))?\s+)?const\s+\w+\s*:[^;]*;', m, re.M)]
        if not spans:
            raise AnchorLost('no top-level consts found')
        return spans[0][0], spans[-1][1], [], spans
    if kind == 'const':
        mm = re.search(r'^[ \t]*(pub(\([^)]*\))?\s+)?const\s+' + re.escape(name) + r'\b[^;]*;', m, re.M)
        if not mm:
            raise AnchorLost(f'const {name} not found')
        return mm.start(), mm.end(), []
    mm = list(re.finditer(r'^[ \t]*(pub(\([^)]*\))?\s+)?' + kind + r'\s+' + re.escape(name) + r'\b', m, re.M))
    if len(mm) != 1:
        raise AnchorLost(f'{kind} {name}: {len(mm)} candidates')
    s = mm[0].start()
    ob = m.index('{', mm[0].end())
    e = rustlex.match_brace(m, ob) + 1
    # preceding attribute lines (#[derive..]) belong to the item; doc comments are dropped
    lines_before = src[:s].split('\n')
    k = len(lines_before) - 2  # last complete line before the item line
    attrs = []
    while k >= 0:
        ln = lines_before[k].strip()
        if ln.startswith('#['):
            attrs.insert(0, lines_before[k])
            k -= 1
        elif ln.startswith('///') or ln == '' and False:
            k -= 1
        else:
            break
    return s, e, attrs


def project_struct(text, it):
    """R5: keep only the listed fields of a struct; replace the header by the declared one"""
    m = rustlex.mask(text)
    ob = m.index('{')
    cb = rustlex.match_brace(m, ob)
    body = text[ob + 1:cb]
    keep = it.get('project_fields', [])
    drop = it.get('drop_fields')
    kept, dropped = [], []
    for ln in body.split('\n'):
        mm = re.match(r'\s*(pub(\([^)]*\))?\s+)?(\w+)\s*:', ln)
        if not mm:
            if ln.strip() and not ln.strip().startswith('//'):
                raise Unsupported(f'struct {it["name"]}: cannot parse field line {ln!r}')
            continue
        # `drop_fields`: everything not listed is kept, so a field added to the struct later stays visible to the proof
        is_kept = (mm.group(3) not in drop) if drop is not None else (mm.group(3) in keep)
        (kept if is_kept else dropped).append(ln if is_kept else mm.group(3))
    missing = [k for k in keep if not any(re.match(r'\s*(pub(\([^)]*\))?\s+)?' + k + r'\s*:', x) for x in kept)]
    if missing:
        raise AnchorLost(f'struct {it["name"]}: fields not found: {missing}')
    return it['project_header'] + ' {\n' + '\n'.join(kept) + '\n}', dropped


def strip_docs(text):
    """drop doc comments and plain comments inside an item (logged as dropped)"""
    out = []
    for ln in text.split('\n'):
        if ln.strip().startswith('///') or ln.strip().startswith('//!'):
            continue
        out.append(ln)
    return '\n'.join(out)


R1_BOUND = re.compile(r'EbmlSpecification<(\w+)>\s*\+\s*EbmlTag<\1>\s*\+\s*Clone')


class Weaver:
    """positions refer to the ORIGINAL item text; edits are applied back to front"""

    def __init__(self, orig):
        self.orig = orig
        self.masked = rustlex.mask(orig)
        self.ins = []    # (pos, text)
        self.repl = []   # (start, end, new)
        self.log = []

    def insert(self, pos, text, why):
        self.ins.append((pos, text))
        self.log.append({'op': 'insert', 'at': pos, 'why': why, 'text': text.strip()[:200]})

    def replace(self, start, end, new, why):
        self.repl.append((start, end, new))
        self.log.append({'op': 'replace', 'why': why, 'before': self.orig[start:end], 'after': new})

    def render(self):
        edits = [(p, p, t, 'ins') for p, t in self.ins] + [(s, e, n, 'repl') for s, e, n in self.repl]
        # stable order: by position; insertions at the same position keep their registration order
        edits = sorted(enumerate(edits), key=lambda x: (x[1][0], x[0]))
        out = []
        cur = 0
        back = []
        for _, (s, e, t, kind) in edits:
            if s < cur:
                raise Unsupported('overlapping edits')
            out.append(self.orig[cur:s])
            back.append(self.orig[cur:s])
            out.append(t)
            if kind == 'repl':
                back.append(self.orig[s:e])
            cur = e
        out.append(self.orig[cur:])
        back.append(self.orig[cur:])
        faithful = ''.join(back) == self.orig
        return ''.join(out), faithful


def weave_fn(text, spec, unit_name, probe=False):
    """text: verbatim fn item.  spec: dict from the unit file."""
    w = Weaver(text)
    m = w.masked
    fn_pos = re.search(r'\bfn\s+' + re.escape(spec['name']) + r'\b', m).start()
    # body brace
    depth = 0
    k = fn_pos
    body_open = None
    while k < len(m):
        ch = m[k]
        if ch in '([':
            depth += 1
        elif ch in ')]':
            depth -= 1
        elif ch == '{' and depth == 0:
            body_open = k
            break
        k += 1
    if body_open is None:
        raise Unsupported(f'{spec["name"]}: no body')
    body_close = rustlex.match_brace(m, body_open)
    sig = text[:body_open]
    # R1 in the signature
    for mm in R1_BOUND.finditer(m[:body_open]):
        w.replace(mm.start(), mm.end(), 'EbmlSpecification', 'R1 trait-parameter collapse')
    # R3-lite: nothing
    # named return value
    ret = spec.get('ret')
    arrow = None
    d = 0
    for i in range(fn_pos, body_open):
        if m[i] in '(<[':
            d += 1
        elif m[i] in ')]':
            d -= 1
        elif m[i] == '>' and m[i - 1] != '-':
            d -= 1
        if m.startswith('->', i) and d == 0:
            arrow = i
    if ret:
        if arrow is None:
            raise Unsupported(f'{spec["name"]}: no return type to name')
        ty_start = arrow + 2
        ty_end = body_open
        # where clause?
        wm = re.search(r'\bwhere\b', m[ty_start:body_open])
        if wm:
            ty_end = ty_start + wm.start()
        ty = text[ty_start:ty_end].strip()
        # insert "(r: " before type and ")" after
        lead = len(text[ty_start:ty_end]) - len(text[ty_start:ty_end].lstrip())
        trail = len(text[ty_start:ty_end].rstrip())
        w.insert(ty_start + lead, f'({ret}: ', 'named return value')
        w.insert(ty_start + trail, ')', 'named return value')
    clauses = []
    for key in ('requires', 'ensures'):
        if spec.get(key):
            clauses.append(f'    {key}\n' + ''.join(f'        {c},\n' for c in spec[key]))
    if spec.get('decreases'):
        clauses.append(f'    decreases {spec["decreases"]}\n')
    for at in spec.get('attrs', []):
        # verifier attributes (resource limit, separate solver instance): ghost text
        w.insert(0, at + '\n', 'verifier attribute')
    if spec.get('external_body'):
        w.insert(0, '#[verifier::external_body]\n', 'assumed contract (external_body)')
    if clauses:
        w.insert(body_open, '\n' + ''.join(clauses), 'contract')
    if probe and not spec.get('external_body'):
        # vacuity probe: with `assert(false)` as the first statement the function MUST fail to verify; if it verifies,
        # its precondition is unsatisfiable and every postcondition holds vacuously
        w.insert(body_open + 1, ' proof { assert(false); } ', 'vacuity probe')
    if spec.get('external_body'):
        # the body is not verified and need not even type-check inside the unit: drop it (logged)
        w.replace(body_open, body_close + 1, '{ unimplemented!() }', 'external_body: body dropped, contract ASSUMED')
        out, faithful = w.render()
        return out, faithful, w.log
    # loops by ordinal
    loops = []
    for mm in re.finditer(r'\b(while|loop|for)\b', m[body_open:body_close]):
        p = body_open + mm.start()
        # `for` only as a statement head (preceded by whitespace / brace / semicolon)
        prev = m[:p].rstrip()
        if prev and prev[-1] not in '{};)':
            continue
        loops.append(p)
    # loops inside a span that R4 outlines away do not take an invariant
    skip_spans = []
    for ol in spec.get('outline', []):
        if 'expr' in ol and text.count(ol['expr']) == 1:
            s0 = text.index(ol['expr'])
            if ol.get('through_matching_brace'):
                ob0 = m.index('{', s0 + len(ol['expr']) - 1) if '{' not in ol['expr'] else s0 + ol['expr'].rindex('{')
                skip_spans.append((s0, rustlex.match_brace(m, ob0) + 1))
            else:
                skip_spans.append((s0, s0 + len(ol['expr'])))
    loops = [p for p in loops if not any(a <= p < b for a, b in skip_spans)]
    for i, lp in enumerate(spec.get('loop', [])):
        if i >= len(loops):
            raise AnchorLost(f'{spec["name"]}: loop #{i} not found')
        p = loops[i]
        d = 0
        k = p
        lb = None
        while k < body_close:
            ch = m[k]
            if ch in '([':
                d += 1
            elif ch in ')]':
                d -= 1
            elif ch == '{' and d == 0:
                lb = k
                break
            k += 1
        if lb is None:
            raise AnchorLost(f'{spec["name"]}: loop #{i} body not found')
        if lp.get('for_iter'):
            # ghost name for the iterator of a `for` loop (`for x in it: expr`), so that invariants can mention it.pos / it.elements
            fm = re.match(r'for\s+[^{]*?\bin\s+', m[p:lb])
            if not fm:
                raise AnchorLost(f'{spec["name"]}: loop #{i} is not a `for .. in ..` loop')
            w.insert(p + fm.end(), lp['for_iter'] + ': ', f'loop #{i} ghost iterator name')
        txt = '\n'
        for key in ('invariant', 'invariant_except_break', 'ensures'):
            if lp.get(key):
                txt += f'        {key}\n' + ''.join(f'            {c},\n' for c in lp[key])
        if lp.get('decreases'):
            txt += f'        decreases {lp["decreases"]}\n'
        txt += '    '
        w.insert(lb, txt, f'loop #{i} invariant')
    if len(spec.get('loop', [])) != len(loops) and spec.get('loop') is not None and not spec.get('external_body'):
        if len(loops) > len(spec.get('loop', [])):
            raise AnchorLost(f'{spec["name"]}: {len(loops)} loops in the code, {len(spec.get("loop", []))} invariants in the contract')
    # ghost blocks before an exact source line
    lines = text.split('\n')
    offs = []
    o = 0
    for ln in lines:
        offs.append(o)
        o += len(ln) + 1
    for g in spec.get('ghost', []):
        if g.get('at_end'):
            # proof block as the last statement of the function body (before its closing brace)
            w.insert(body_close, ''.join('    ' + x + '\n' for x in g['text'].strip('\n').split('\n')), 'proof block at the end of the body')
            continue
        if 'before_re' in g:
            # lenient anchor: a regular expression on the trimmed source line, so that an edit elsewhere on the
            # line (the kind of change a contract is supposed to notice) does not lose the anchor
            want = g['before_re']
            hits = [i for i, ln in enumerate(lines) if re.search(want, ln.strip())]
        else:
            want = g['before'].strip()
            hits = [i for i, ln in enumerate(lines) if ln.strip() == want]
        occ = g.get('occurrence', 0)
        if len(hits) <= occ:
            raise AnchorLost(f'{spec["name"]}: ghost anchor line not found: {want!r}')
        i = hits[occ]
        indent = re.match(r'\s*', lines[i]).group(0)
        if g.get('after'):
            # insert after the anchored line (i.e. at the start of the next line)
            w.insert(offs[i] + len(lines[i]) + 1, ''.join(indent + x + '\n' for x in g['text'].strip('\n').split('\n')), 'proof block')
        else:
            w.insert(offs[i], ''.join(indent + x + '\n' for x in g['text'].strip('\n').split('\n')), 'proof block')
    # R4 outlining
    for ol in spec.get('outline', []):
        if ol.get('through_matching_brace'):
            # R4 on a block statement: from the given start text through the brace that closes the first `{` after it
            cnt = text.count(ol['expr'])
            if cnt != 1:
                raise AnchorLost(f'{spec["name"]}: R4 block target occurs {cnt}x: {ol["expr"]!r}')
            s0 = text.index(ol['expr'])
            ob = m.index('{', s0 + len(ol['expr']) - 1) if '{' not in ol['expr'] else s0 + ol['expr'].rindex('{')
            cb = rustlex.match_brace(m, ob)
            w.replace(s0, cb + 1, ol['call'], 'R4 outlining of a block into helper with assumed contract')
            continue
        if 'expr_re' in ol:
            # the target given as a regular expression (whitespace-tolerant); every match is logged verbatim
            hits = list(re.finditer(ol['expr_re'], text, re.S))
            if (not ol.get('all') and len(hits) != 1) or not hits or ('count' in ol and len(hits) != ol['count']):
                raise AnchorLost(f'{spec["name"]}: R4 target (regex) occurs {len(hits)}x: {ol["expr_re"]!r}')
            for h in hits:
                w.replace(h.start(), h.end(), h.expand(ol['call']), 'R4 outlining into helper with assumed contract')
            continue
        cnt = text.count(ol['expr'])
        if ol.get('all'):
            # the same expression text at several places of one function (e.g. one per match arm): every occurrence is outlined
            if cnt < 1 or ('count' in ol and cnt != ol['count']):
                raise AnchorLost(f'{spec["name"]}: R4 target occurs {cnt}x (expected {ol.get("count", ">=1")}): {ol["expr"]!r}')
            s = -1
            for _ in range(cnt):
                s = text.index(ol['expr'], s + 1)
                w.replace(s, s + len(ol['expr']), ol['call'], 'R4 outlining into helper with assumed contract')
                s += len(ol['expr']) - 1
            continue
        if cnt != 1:
            raise AnchorLost(f'{spec["name"]}: R4 target occurs {cnt}x: {ol["expr"]!r}')
        s = text.index(ol['expr'])
        w.replace(s, s + len(ol['expr']), ol['call'], 'R4 outlining into helper with assumed contract')
    # R2
    for r2 in spec.get('r2', []):
        cnt = text.count(r2['from'])
        if cnt != 1:
            raise AnchorLost(f'{spec["name"]}: R2 target occurs {cnt}x')
        s = text.index(r2['from'])
        w.replace(s, s + len(r2['from']), r2['to'], 'R2 matches!/ref-pattern normalisation')
    out, faithful = w.render()
    return out, faithful, w.log


def build_unit(unit_path, out_path, probe=False):
    with open(unit_path, 'rb') as f:
        u = tomllib.load(f)
    parts = ['// GENERATED on every run by vlib/verus.py from /repo — do not edit', 'use vstd::prelude::*;'] + list(u.get('header', [])) + ['verus! {', '']
    info = {'unit': u['name'], 'items': [], 'functions': [], 'rewrites': [], 'faithful': True, 'line_map': []}
    prelude = open(os.path.join(VERIF, u['prelude'])).read()
    parts.append('// ---- prelude (specification vocabulary, trait interface, helper declarations) ----')
    parts.append(prelude)
    for it in u.get('item', []):
        src = rd(os.path.join(REPO, it['file'])).replace('\r\n', '\n')
        found = find_item(src, it['kind'], it.get('name', ''))
        s, e, attrs = found[0], found[1], found[2]
        text = strip_docs(src[s:e]) if it['kind'] != 'consts' else '\n'.join(src[a:b] for a, b in found[3])
        if R1_BOUND.search(text):
            info['rewrites'].append({'fn': it['name'], 'op': 'replace', 'why': 'R1 trait-parameter collapse', 'before': R1_BOUND.search(text).group(0), 'after': 'EbmlSpecification'})
            text = R1_BOUND.sub('EbmlSpecification', text)
        keep_attrs = [] if it.get('drop_attrs') else [a.strip() for a in attrs if a.strip().startswith('#[derive')]
        if it.get('project_fields') or it.get('drop_fields') is not None:
            text, dropped = project_struct(text, it)
            info['rewrites'].append({'fn': it['name'], 'op': 'R5 struct projection', 'why': 'fields not touched by any function of the unit are dropped (checked mechanically below); generic parameters of dropped fields removed', 'dropped_fields': dropped, 'after': text})
            info.setdefault('dropped_fields', []).extend(dropped)
        parts.append(f'// ---- verbatim: {it["kind"]} {it.get("name", "(all)")} from {it["file"]} ----')
        parts.extend(keep_attrs)
        parts.append(text)
        info['items'].append({'file': it['file'], 'kind': it['kind'], 'name': it.get('name', '(all top-level consts)'), 'sha256': hashlib.sha256(src[s:e].encode()).hexdigest(), 'dropped': 'doc comments'})
    for group in u.get('impl', []):
        parts.append(group['header'] + ' {')
        if group.get('prelude'):
            parts.append(open(os.path.join(VERIF, group['prelude'])).read())
        for fs in group['fn']:
            _emit_fn(fs, parts, info, u, indent='', probe=probe)
        parts.append('}')
    for fs in u.get('fn', []):
        _emit_fn(fs, parts, info, u, indent='', probe=probe)
    parts.append('} // verus!')
    parts.append('fn main() {}')
    text = '\n'.join(parts) + '\n'
    with open(out_path, 'w') as f:
        f.write(text)
    # line map: function name -> (first, last) line in the generated file
    lines = text.split('\n')
    for fnrec in info['functions']:
        marker = f'// ---- fn {fnrec["name"]} '
        for i, ln in enumerate(lines):
            if ln.startswith(marker):
                j = i + 1
                while j < len(lines) and not lines[j].startswith('// ---- '):
                    j += 1
                fnrec['lines'] = (i + 1, j)
                break
    return u, info


def _emit_fn(fs, parts, info, u, indent='', probe=False):
    src = rd(os.path.join(REPO, fs['file'])).replace('\r\n', '\n')
    try:
        pos = rustlex.find_fn(src, fs['name'], fs.get('scope', ''))
    except LookupError as e:
        raise AnchorLost(f'{fs["file"]}: {e}')
    a, b = rustlex.fn_item_span(src, pos)
    orig = src[a:b]
    woven, faithful, log = weave_fn(strip_docs(orig) if False else orig, fs, u['name'], probe=probe)
    if not faithful:
        info['faithful'] = False
    for df in info.get('dropped_fields', []):
        if re.search(r'self\s*\.\s*' + re.escape(df) + r'\b', rustlex.mask(orig)):
            raise Unsupported(f'{fs["name"]} mentions self.{df}, a field dropped by the struct projection of this unit')
    parts.append(f'// ---- fn {fs["name"]} from {fs["file"]} ({"ASSUMED contract, body not verified" if fs.get("external_body") else "verbatim body + woven contract"}) ----')
    parts.append(woven)
    info['functions'].append({'name': fs['name'], 'file': fs['file'], 'item_sha256': hashlib.sha256(orig.encode()).hexdigest(), 'engine': 'V (Verus)',
                              'assumed': bool(fs.get('external_body')), 'ensures': fs.get('ensures', []), 'requires': fs.get('requires', [])})
    for l in log:
        if l['op'] == 'replace':
            info['rewrites'].append({'fn': fs['name'], **l})


def run_verus(path, timeout=600, rlimit=None):
    cmd = ['verus', path, '--output-json', '--time', '--multiple-errors', '20']
    if rlimit:
        cmd += ['--rlimit', str(rlimit)]
    t0 = time.time()
    try:
        p = subprocess.run(cmd, capture_output=True, text=True, timeout=timeout, cwd=os.path.dirname(path))
    except subprocess.TimeoutExpired:
        return None, 'timeout', time.time() - t0, ' '.join(cmd)
    return p, None, time.time() - t0, ' '.join(cmd)


def parse(p):
    try:
        d = json.loads(p.stdout)
    except Exception:
        return None
    return d


def units_for(prop):
    res = []
    d = os.path.join(VERIF, 'contracts', 'verus')
    if not os.path.isdir(d):
        return res
    for fn in sorted(os.listdir(d)):
        if fn.endswith('.toml'):
            with open(os.path.join(d, fn), 'rb') as f:
                u = tomllib.load(f)
            if prop in u.get('props', []):
                res.append(os.path.join(d, fn))
    return res


def run_units(ctx):
    for up in units_for(ctx.prop):
        run_unit(ctx, up)


def run_unit(ctx, up):
    out = os.path.join(ctx.scratch, 'verus_unit_' + os.path.basename(up)[:-5] + '.rs')
    try:
        u, info = build_unit(up, out)
    except AnchorLost as e:
        ctx.infra_errors.append(f'V unit {os.path.basename(up)}: extraction anchor lost: {e}')
        return
    except Unsupported as e:
        ctx.infra_errors.append(f'V unit {os.path.basename(up)}: unsupported construct: {e}')
        return
    if not info['faithful']:
        ctx.infra_errors.append(f'V unit {u["name"]}: faithfulness check failed (woven text minus ghost text != /repo text)')
        return
    p, err, wall, cmd = run_verus(out, timeout=u.get('timeout_s', 900))
    ctx.checker_cmds.append(cmd.replace(ctx.scratch, '<scratch>'))
    ctx._extra.setdefault('engine_wall_s', {})['V:' + u['name']] = round(wall, 1)
    ctx._extra.setdefault('verus_functions', []).extend(
        {'fn': f['name'], 'file': f['file'], 'item_sha256': f['item_sha256'], 'engine': 'V (Verus, extracted)' + (' — ASSUMED contract (external_body)' if f['assumed'] else ''), 'ensures': f['ensures']} for f in info['functions'])
    ctx._extra.setdefault('extraction', []).append({'unit': u['name'], 'faithful': info['faithful'], 'items': info['items'], 'rewrites': info['rewrites'],
                                                    'dropped': 'doc comments and #[inline] attributes; everything else of each listed item is verbatim'})
    if err == 'timeout':
        ctx.obligations.append(Obligation(f'V:{u["name"]}', 'V', 'undecided', detail='verus timeout', unit=u['name']))
        return
    d = parse(p)
    stderr = p.stderr
    if d is None or 'verification-results' not in d:
        ctx.obligations.append(Obligation(f'V:{u["name"]}', 'V', 'undecided', detail='verus produced no JSON (crash or unsupported construct): ' + stderr[-1500:], unit=u['name'], raw=stderr[-6000:]))
        return
    vr = d['verification-results']
    if vr.get('encountered-error') and not vr.get('errors') and not vr.get('verified'):
        ctx.obligations.append(Obligation(f'V:{u["name"]}', 'V', 'undecided', detail='verus could not compile the extracted unit (syntax/type error, not a verification failure): ' + stderr[-1500:], unit=u['name'], raw=stderr[-6000:]))
        return
    if vr.get('encountered-vir-error'):
        ctx.obligations.append(Obligation(f'V:{u["name"]}', 'V', 'undecided', detail='verus rejected the unit (unsupported construct / type error): ' + stderr[-1500:], unit=u['name'], raw=stderr[-6000:]))
        return
    breakdown = {}
    for mod in d.get('times-ms', {}).get('smt', {}).get('smt-run-module-times', []):
        for fb in mod.get('function-breakdown', []):
            breakdown[fb['function'].split('::', 1)[1]] = fb
    # error messages grouped by generated-file line -> function
    errs = re.split(r'\n(?=error)', stderr)
    modname = os.path.basename(out)[:-3]
    gen_lines = open(out).read().split('\n')
    n_fn = 0
    for f in info['functions']:
        if f['assumed']:
            continue
        n_fn += 1
        key = None
        for k in breakdown:
            if k == f['name'] or k.endswith('::' + f['name']):
                key = k
        name = f'V:{u["name"]}::{f["name"]}'
        clause = ' && '.join(f['ensures'])
        lo, hi = f.get('lines', (0, 0))
        mine = []
        for e in errs:
            mm = re.search(r'-->\s*\S+?:(\d+):', e)
            if mm and lo <= int(mm.group(1)) <= hi:
                mine.append(e.strip())
        if key is None:
            if any('rlimit' in e.lower() or 'resource limit' in e.lower() for e in mine):
                ctx.obligations.append(Obligation(name, 'V', 'undecided', clause=clause, detail='rlimit exceeded', unit=u['name']))
            elif mine and _only_structural(mine, u):
                ctx.obligations.append(Obligation(name, 'V', 'undecided', clause=clause, detail=INV_NOTE + mine[0][:1200], unit=u['name'], raw='\n\n'.join(mine)))
            elif mine:
                ctx.obligations.append(Obligation(name, 'V', 'failed', clause=clause, detail=mine[0][:1500], unit=u['name'], raw='\n\n'.join(mine)))
            else:
                ctx.obligations.append(Obligation(name, 'V', 'undecided', clause=clause, detail='function missing from the Verus report', unit=u['name']))
            continue
        fb = breakdown[key]
        if fb.get('success') and not mine:
            ctx.obligations.append(Obligation(name, 'V', 'discharged', clause=clause, unit=u['name'], time_s=fb.get('time-micros', 0) / 1e6, n_checks=1,
                                              extra={'rlimit': fb.get('rlimit'), 'unbounded': True}))
        else:
            if any('rlimit' in e.lower() or 'resource limit' in e.lower() for e in mine):
                ctx.obligations.append(Obligation(name, 'V', 'undecided', clause=clause, detail='rlimit exceeded: ' + mine[0][:800], unit=u['name'], raw='\n\n'.join(mine)))
            elif _only_structural(mine, u):
                ctx.obligations.append(Obligation(name, 'V', 'undecided', clause=clause, detail=INV_NOTE + mine[0][:1200], unit=u['name'], raw='\n\n'.join(mine)[-8000:]))
            else:
                ctx.obligations.append(Obligation(name, 'V', 'failed', clause=clause, detail=(mine[0] if mine else 'verification failed')[:1500], unit=u['name'], raw='\n\n'.join(mine)[-8000:],
                                                  n_checks=1, n_failed=1, extra={'generated_file_excerpt': '\n'.join(gen_lines[max(0, lo - 1):hi])[:6000]}))
    # errors Verus reported outside every function under contract (lemmas of the prelude, spec well-formedness): a lemma
    # over contracts is not code, so this is never a violation — but the unit cannot be reported as fully discharged
    attributed = set()
    for f in info['functions']:
        lo, hi = f.get('lines', (0, 0))
        for e in errs:
            mm = re.search(r'-->\s*\S+?:(\d+):', e)
            if mm and lo <= int(mm.group(1)) <= hi:
                attributed.add(e)
    stray = [e.strip() for e in errs if e.startswith('error') and e not in attributed and 'aborting due to' not in e]
    if stray:
        ctx.obligations.append(Obligation(f'V:{u["name"]}::(prelude lemmas)', 'V', 'undecided', detail='a lemma or specification item outside the extracted functions failed: ' + stray[0][:1200], unit=u['name'], raw='\n\n'.join(stray)[-6000:]))
    elif vr.get('verified', 0) > n_fn:
        ctx.obligations.append(Obligation(f'V:{u["name"]}::(prelude lemmas)', 'V', 'discharged', clause='lemmas over the contracts (no code): ' + str(vr.get('verified', 0) - n_fn) + ' proof/spec items', unit=u['name'], n_checks=vr.get('verified', 0) - n_fn, extra={'unbounded': True}))
    ctx._samples.append({'verus_unit': u['name'], 'functions_verified': n_fn, 'verus_summary': vr})
    # ---- vacuity guard (every run): the same unit with `assert(false)` as first statement of every function under contract ----
    if all(o.status == 'discharged' for o in ctx.obligations if getattr(o, 'unit', None) == u['name'] and o.engine == 'V'):
        pout = out[:-3] + '_probe.rs'
        try:
            build_unit(up, pout, probe=True)
            pp, perr, pwall, pcmd = run_verus(pout, timeout=u.get('timeout_s', 900))
        except Exception as e:   # noqa
            pp, perr, pwall = None, str(e), 0
        vac = []
        probed = 0
        if pp is not None and perr is None:
            pd = parse(pp)
            pb = {}
            for mod in (pd or {}).get('times-ms', {}).get('smt', {}).get('smt-run-module-times', []):
                for fb in mod.get('function-breakdown', []):
                    pb[fb['function'].split('::', 1)[1]] = fb
            for f in info['functions']:
                if f['assumed']:
                    continue
                for k, fb in pb.items():
                    if k == f['name'] or k.endswith('::' + f['name']):
                        probed += 1
                        if fb.get('success'):
                            vac.append(f['name'])
        ctx._extra.setdefault('vacuity_probe', {})[u['name']] = {'functions_probed': probed, 'vacuous': vac, 'wall_s': round(pwall, 1),
                                                              'how': 'assert(false) inserted as first statement of every function under contract; each must FAIL to verify'}
        if vac:
            ctx.infra_errors.append(f'V unit {u["name"]}: vacuous contract (precondition unsatisfiable) for: {", ".join(vac)}')
        elif probed == 0:
            ctx.infra_errors.append(f'V unit {u["name"]}: vacuity probe could not be evaluated ({perr or "no function breakdown"})')
