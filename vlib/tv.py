"""Engine TV (C18): per-program validation of the derive macros' output against the declaration table.

The macro front end is syn/quote token manipulation — outside both verifiers — so this engine does for
C18 what translation validation does for a compiler: for every declaration of a corpus (fixed base
corpus + seeded random declarations) it compiles the declaration through BOTH front ends
(#[ebml_specification] and easy_ebml!) against /repo's current tree and checks the GENERATED code
against the declaration table on every declared id and on probe ids (neighbours, 0, u64::MAX, the two
built-in globals): data type, path, constructor/accessor matrix, get_id round trip, raw-tag variant,
agreement of the two front ends.  Systematically broken declarations (one per rejection class of the
statement) must be rejected with a compile error.  Complete per program in the declared ids, BOUNDED
in programs (the corpus) and in probe ids.
"""
import json
import os
import random
import re
import subprocess
import time

from .report import Obligation

VERIF = os.path.dirname(os.path.dirname(os.path.abspath(__file__)))
TYPES = ['Master', 'UnsignedInt', 'Integer', 'Utf8', 'Binary', 'Float']


class Var:
    def __init__(self, name, vid, ty, path):
        self.name, self.id, self.ty, self.path = name, vid, ty, path  # path: list of ('id', name) | ('g', min, max)


def path_src(path):
    out = []
    for p in path:
        if p[0] == 'id':
            out.append(p[1])
        else:
            out.append(f'({"" if p[1] is None else p[1]}-{"" if p[2] is None else p[2]})')
    return '/'.join(out)


def base_corpus():
    c = []
    # 1: the repository's feature-gated test enum (tests/derive_spec_compile_with_hierarchy.rs)
    c.append([Var('Root', 0x01, 'Master', []), Var('Parent', 0x02, 'Master', [('id', 'Root')]),
              Var('Count', 0x100, 'UnsignedInt', [('id', 'Root'), ('id', 'Parent')]), Var('Data', 0x200, 'Binary', [('id', 'Root'), ('id', 'Parent')]),
              Var('Name', 0x201, 'Utf8', [('id', 'Root'), ('id', 'Parent')]), Var('Amount', 0x102, 'Float', [('id', 'Root'), ('id', 'Parent')]),
              Var('Id', 0x101, 'Integer', [('id', 'Root'), ('id', 'Parent')])])
    # 2: the declaration documented at the top of tests/test_spec.rs
    c.append([Var('Root', 0x81, 'Master', []), Var('Int', 0x4101, 'UnsignedInt', [('id', 'Root')]), Var('String', 0x4102, 'Utf8', [('id', 'Root')]),
              Var('Parent', 0x4103, 'Master', [('id', 'Root')]), Var('Child', 0x210301, 'UnsignedInt', [('id', 'Root'), ('id', 'Parent')]),
              Var('Ebml', 0x1a45dfa3, 'Master', []), Var('Segment', 0x18538067, 'Master', []), Var('TrackType', 0x83, 'UnsignedInt', [('id', 'Segment')]),
              Var('Cluster', 0x1F43B675, 'Master', [('id', 'Segment')]), Var('CueRefCluster', 0x97, 'UnsignedInt', [('id', 'Segment'), ('id', 'Cluster')]),
              Var('Count', 0x4100, 'UnsignedInt', [('id', 'Segment'), ('id', 'Cluster')]), Var('Block', 0xa1, 'Binary', [('id', 'Segment'), ('id', 'Cluster')]),
              Var('SimpleBlock', 0xa3, 'Binary', [('id', 'Segment'), ('id', 'Cluster')])])
    # 3: all six data types, depth 3, trailing and intermediate placeholders, a user global
    c.append([Var('Root', 0x81, 'Master', []), Var('UInt', 0x82, 'UnsignedInt', [('id', 'Root')]), Var('SInt', 0x83, 'Integer', [('id', 'Root')]),
              Var('Str', 0x84, 'Utf8', [('id', 'Root')]), Var('Bin', 0x85, 'Binary', [('id', 'Root')]), Var('Flt', 0x86, 'Float', [('id', 'Root')]),
              Var('Parent', 0x87, 'Master', [('id', 'Root')]), Var('Sub', 0x89, 'Master', [('id', 'Root'), ('id', 'Parent')]),
              Var('Leaf', 0x8A, 'UnsignedInt', [('id', 'Root'), ('id', 'Parent'), ('id', 'Sub')]),
              Var('Deep', 0x8D, 'UnsignedInt', [('id', 'Root'), ('g', 1, 2)]), Var('Anywhere', 0x4444, 'Binary', [('g', None, None)]),
              Var('Under', 0x4445, 'Float', [('id', 'Root'), ('id', 'Parent'), ('g', None, 3)]), Var('Other', 0x8B, 'Master', []),
              Var('Big', 0x0100000000000001, 'Integer', [('id', 'Other')]),
              # an intermediate placeholder: a master declared under Root/(1-2) and elements below it
              Var('Mid', 0x4446, 'Master', [('id', 'Root'), ('g', 1, 2)]), Var('MidLeaf', 0x4447, 'Utf8', [('id', 'Root'), ('g', 1, 2), ('id', 'Mid')]),
              Var('MidDeep', 0x4448, 'Integer', [('id', 'Root'), ('g', 1, 2), ('id', 'Mid'), ('g', 0, 1)])])
    # 4: names (and path spellings) that collide when path parts are glued together without a separator:
    #    Root/Seek/Head/.. vs Root/SeekHead/.. ; RootSeek/.. vs Root/Seek/.. ; placeholders next to names
    c.append([Var('Root', 0x81, 'Master', []), Var('Seek', 0x4101, 'Master', [('id', 'Root')]), Var('Head', 0x4102, 'Master', [('id', 'Root'), ('id', 'Seek')]),
              Var('Position', 0x4103, 'UnsignedInt', [('id', 'Root'), ('id', 'Seek'), ('id', 'Head')]),
              Var('SeekHead', 0x4104, 'Master', [('id', 'Root')]), Var('Entry', 0x4105, 'UnsignedInt', [('id', 'Root'), ('id', 'SeekHead')]),
              Var('RootSeek', 0x82, 'Master', []), Var('Head2', 0x4106, 'Utf8', [('id', 'RootSeek')]), Var('Tail', 0x4107, 'Binary', [('id', 'Root'), ('id', 'Seek')]),
              Var('SeekTail', 0x4108, 'Float', [('id', 'Root')]), Var('A', 0x4109, 'Master', [('id', 'Root'), ('g', 1, None)]), Var('B', 0x410A, 'Integer', [('id', 'Root'), ('g', 1, None), ('id', 'A')]),
              Var('AB', 0x410B, 'Integer', [('id', 'Root'), ('g', 1, None)])])
    return c


def random_decl(rng):
    n_m = rng.randint(1, 4)
    vs = []
    ids = set([0xbf, 0xec])

    def new_id():
        while True:
            w = rng.choice([1, 1, 2, 2, 3, 4, 8])
            v = (1 << (7 * w)) | rng.randrange(1, 1 << (7 * w) - 1) if w < 8 else (1 << 56) | rng.randrange(1, 1 << 40)
            if v not in ids:
                ids.add(v)
                return v
    masters = []
    for i in range(n_m):
        if masters and rng.random() < 0.7:
            par = rng.choice(masters)
            path = par.path + [('id', par.name)]
            if rng.random() < 0.25 and not (par.path and par.path[-1][0] == 'g'):
                # a master that sits under a placeholder (intermediate placeholder for everything below it)
                lo = rng.choice([None, 0, 1]); hi = rng.choice([None, 1, 3])
                path = path + [('g', lo, hi)]
        else:
            path = []
        m = Var(f'M{i}', new_id(), 'Master', path)
        masters.append(m)
        vs.append(m)
    for i in range(rng.randint(2, 6)):
        ty = rng.choice(TYPES[1:])
        r = rng.random()
        if r < 0.15:
            lo = rng.choice([None, 0, 1, 2])
            hi = rng.choice([None, 1, 2, 5])
            if hi is not None and lo is not None and hi < lo:
                lo, hi = hi if hi > 0 else None, (lo if lo > 0 else 1)
            path = [('g', lo, hi)]
        else:
            par = rng.choice(masters)
            path = par.path + [('id', par.name)]
            if rng.random() < 0.3:
                lo = rng.choice([None, 1, 2])
                hi = rng.choice([None, 2, 4])
                path = path + [('g', lo, hi)]
        vs.append(Var(f'L{i}', new_id(), ty, path))
    rng.shuffle(vs)
    return vs


def broken_variants(rng):
    """(kind, declaration) pairs, one per rejection class of the C18 statement"""
    def good():
        return [Var('Root', 0x81, 'Master', []), Var('Parent', 0x87, 'Master', [('id', 'Root')]), Var('Leaf', 0x88, 'UnsignedInt', [('id', 'Root'), ('id', 'Parent')]),
                Var('Other', 0x8B, 'Master', []), Var('Plain', 0x82, 'Integer', [('id', 'Root')])]
    res = []
    d = good(); d[2].id = 0x81; res.append(('duplicate id', d, {}))
    d = good(); d[2].id = 0xec; res.append(('duplicate id (collides with the built-in Void)', d, {}))
    d = good(); d[2].path = [('id', 'Root'), ('id', 'Nope')]; res.append(('unknown parent', d, {}))
    d = good(); d[2].path = [('id', 'Root'), ('id', 'Plain')]; res.append(('non-master parent of an element', d, {}))
    d = good(); d[1].path = [('id', 'Root'), ('id', 'Plain')]; d[2].path = [('id', 'Root'), ('id', 'Plain'), ('id', 'Parent')]; res.append(('non-master parent of a master', d, {}))
    d = good(); d[1].path = [('id', 'Root'), ('id', 'Plain')]; d[2].path = [('g', None, None)]; res.append(('non-master parent of a master that has no children', d, {}))
    d = good(); d[4].path = [('id', 'Other'), ('id', 'Root')]; res.append(('element path does not extend its parent path (parent is a root element but appears second)', d, {}))
    d = good(); d[2].path = [('id', 'Other'), ('id', 'Parent')]; res.append(('element path does not extend its parent path (wrong prefix)', d, {}))
    d = good(); d[2].path = [('id', 'Root'), ('id', 'Other'), ('id', 'Parent')]; res.append(('element path does not extend its parent path (extra master before the parent)', d, {}))
    d = good(); d[2].path = [('id', 'Parent')]; res.append(('element path does not extend its parent path (too short)', d, {}))
    d = good(); d[2].path = [('id', 'Root'), ('id', 'Plain'), ('g', 1, None)]; res.append(('non-master parent before a trailing placeholder', d, {}))
    d = good(); d[2].path = [('id', 'Parent'), ('g', 1, None)]; res.append(('element path does not extend its parent path (trailing placeholder after a misplaced parent)', d, {}))
    d = good(); d[2].path = [('id', 'Root'), ('id', 'Nope'), ('g', None, 2)]; res.append(('unknown parent before a trailing placeholder', d, {}))
    d = good(); d[4].path = [('id', 'Root'), ('g', None, 0)]; res.append(('zero-maximum global placeholder', d, {}))
    d = good(); d[4].path = [('id', 'Root'), ('g', 1, None), ('g', 1, None)]; res.append(('adjacent global placeholders', d, {}))
    d = good(); res.append(('missing id attribute', d, {'drop_id': 'Plain'}))
    d = good(); res.append(('missing data_type attribute', d, {'drop_type': 'Plain'}))
    d = good(); d[4].ty = 'Date'; res.append(('unknown data type', d, {}))
    return res


def attr_src(vs, name, opts=None):
    opts = opts or {}
    out = ['#[ebml_specification]', '#[derive(Clone, Debug, PartialEq)]', f'pub enum {name} {{']
    for v in vs:
        if opts.get('drop_id') != v.name:
            out.append(f'    #[id(0x{v.id:x})]')
        if opts.get('drop_type') != v.name:
            out.append(f'    #[data_type(TagDataType::{v.ty})]')
        if v.path:
            out.append(f'    #[doc_path({path_src(v.path)})]')
        out.append(f'    {v.name},')
    out.append('}')
    return '\n'.join(out)


def easy_src(vs, name):
    out = ['easy_ebml! {', '    #[derive(Clone, Debug, PartialEq)]', f'    pub enum {name} {{']
    for v in vs:
        p = path_src(v.path + [('id', v.name)])
        out.append(f'        {p}: {v.ty} = 0x{v.id:x},')
    out.append('    }')
    out.append('}')
    return '\n'.join(out)


def rust_path(vs, v):
    byname = {x.name: x for x in vs}
    parts = []
    for p in v.path:
        if p[0] == 'id':
            parts.append(f'PathPart::Id(0x{byname[p[1]].id:x})')
        else:
            f = lambda x: 'None' if x is None else f'Some({x})'
            parts.append(f'PathPart::Global(({f(p[1])}, {f(p[2])}))')
    return '&[' + ', '.join(parts) + ']'


def decl_module(k, vs):
    ids = [v.id for v in vs] + [0xbf, 0xec]
    probes = sorted(set(ids + [i + 1 for i in ids] + [max(0, i - 1) for i in ids] + [0, 1, 0x80, 0xff, 0xffff, 2 ** 64 - 1, 0x1a45dfa3]))
    rows = [f'        0x{v.id:x} => Some((TagDataType::{v.ty}, {rust_path(vs, v)})),' for v in vs]
    rows.append('        0xbf => Some((TagDataType::Binary, &[PathPart::Global((Some(1), None))])),')
    rows.append('        0xec => Some((TagDataType::Binary, &[PathPart::Global((None, None))])),')
    return f'''
pub mod d{k} {{
    pub mod a {{
        use ebml_iterable::specs::{{ebml_specification, TagDataType, Master}};
{_indent(attr_src(vs, 'S'), 8)}
    }}
    pub mod b {{
        use ebml_iterable::specs::{{easy_ebml, TagDataType, Master}};
{_indent(easy_src(vs, 'S'), 8)}
    }}
    use ebml_iterable::specs::{{TagDataType, PathPart}};
    pub fn table(id: u64) -> Option<(TagDataType, &'static [PathPart])> {{
        match id {{
{chr(10).join(rows)}
            _ => None,
        }}
    }}
    pub const PROBES: &[u64] = &[{', '.join('0x%x' % p for p in probes)}];
    pub fn run(out: &mut Vec<String>) -> u64 {{
        let mut n = 0;
        for id in PROBES {{
            n += 1;
            crate::check_one::<a::S>("d{k}/attribute", *id, table(*id), out);
            crate::check_one::<b::S>("d{k}/easy_ebml", *id, table(*id), out);
            crate::agree::<a::S, b::S>("d{k}", *id, out);
        }}
        n
    }}
}}
'''


def _indent(s, n):
    return '\n'.join(' ' * n + l for l in s.split('\n'))


LIB_HEAD = r'''#![allow(dead_code, unused_imports, non_camel_case_types)]
use ebml_iterable::specs::{EbmlSpecification, EbmlTag, Master, PathPart, TagDataType};

/// the generated specification against the declaration table, for one id
pub fn check_one<T: EbmlSpecification<T> + EbmlTag<T> + Clone + std::fmt::Debug + PartialEq>(who: &str, id: u64, row: Option<(TagDataType, &'static [PathPart])>, out: &mut Vec<String>) {
    let mut bad = |what: &str| out.push(format!("{} id=0x{:x}: {}", who, id, what));
    let ty = T::get_tag_data_type(id);
    if ty != row.map(|r| r.0) { bad(&format!("data type {:?}, declared {:?}", ty, row.map(|r| r.0))); }
    let path = T::get_path_by_id(id);
    if path != row.map(|r| r.1).unwrap_or(&[]) { bad(&format!("path {:?}, declared {:?}", path, row.map(|r| r.1))); }
    let others_none = |t: &T, keep: &str| -> bool {
        (keep == "u" || t.as_unsigned_int().is_none()) && (keep == "i" || t.as_signed_int().is_none()) && (keep == "s" || t.as_utf8().is_none())
            && (keep == "b" || t.as_binary().is_none()) && (keep == "f" || t.as_float().is_none()) && (keep == "m" || t.as_master().is_none())
    };
    let u = T::get_unsigned_int_tag(id, 7);
    if u.is_some() != (ty == Some(TagDataType::UnsignedInt)) { bad("get_unsigned_int_tag is Some iff the type is UnsignedInt"); }
    if let Some(t) = &u { if !(t.get_id() == id && t.as_unsigned_int() == Some(&7) && others_none(t, "u")) { bad("unsigned tag: id / payload / accessor matrix"); } }
    let i = T::get_signed_int_tag(id, -7);
    if i.is_some() != (ty == Some(TagDataType::Integer)) { bad("get_signed_int_tag is Some iff the type is Integer"); }
    if let Some(t) = &i { if !(t.get_id() == id && t.as_signed_int() == Some(&-7) && others_none(t, "i")) { bad("signed tag: id / payload / accessor matrix"); } }
    let s = T::get_utf8_tag(id, "x".to_string());
    if s.is_some() != (ty == Some(TagDataType::Utf8)) { bad("get_utf8_tag is Some iff the type is Utf8"); }
    if let Some(t) = &s { if !(t.get_id() == id && t.as_utf8() == Some("x") && others_none(t, "s")) { bad("utf8 tag: id / payload / accessor matrix"); } }
    let b = T::get_binary_tag(id, &[1, 2]);
    if b.is_some() != (ty == Some(TagDataType::Binary)) { bad("get_binary_tag is Some iff the type is Binary"); }
    if let Some(t) = &b { if !(t.get_id() == id && t.as_binary() == Some(&[1u8, 2][..]) && others_none(t, "b")) { bad("binary tag: id / payload / accessor matrix"); } }
    let f = T::get_float_tag(id, 1.5);
    if f.is_some() != (ty == Some(TagDataType::Float)) { bad("get_float_tag is Some iff the type is Float"); }
    if let Some(t) = &f { if !(t.get_id() == id && t.as_float() == Some(&1.5) && others_none(t, "f")) { bad("float tag: id / payload / accessor matrix"); } }
    for m in [Master::Start, Master::End, Master::Full(vec![])] {
        let mt = T::get_master_tag(id, m.clone());
        if mt.is_some() != (ty == Some(TagDataType::Master)) { bad("get_master_tag is Some iff the type is Master"); }
        if let Some(t) = &mt { if !(t.get_id() == id && t.as_master() == Some(&m) && others_none(t, "m")) { bad("master tag: id / payload / accessor matrix"); } }
    }
    let r = T::get_raw_tag(id, &[9]);
    if !(r.get_id() == id && r.as_binary() == Some(&[9u8][..]) && others_none(&r, "b")) { bad("raw tag variant: id and data only retrievable as binary"); }
    if T::get_tag_id(&r) != id || T::get_path_by_tag(&r) != path { bad("get_tag_id / get_path_by_tag defaults"); }
}
pub fn agree<A: EbmlSpecification<A> + EbmlTag<A> + Clone, B: EbmlSpecification<B> + EbmlTag<B> + Clone>(who: &str, id: u64, out: &mut Vec<String>) {
    if A::get_tag_data_type(id) != B::get_tag_data_type(id) || A::get_path_by_id(id) != B::get_path_by_id(id)
        || A::get_unsigned_int_tag(id, 1).is_some() != B::get_unsigned_int_tag(id, 1).is_some()
        || A::get_master_tag(id, Master::Start).is_some() != B::get_master_tag(id, Master::Start).is_some() {
        out.push(format!("{} id=0x{:x}: the two macro front ends disagree", who, id));
    }
}
'''


def build_crate(root, repo_copy, decls, broken):
    os.makedirs(os.path.join(root, 'src', 'bin'), exist_ok=True)
    with open(os.path.join(root, 'Cargo.toml'), 'w') as f:
        f.write(f'''[package]
name = "verif_tv"
version = "0.0.0"
edition = "2018"

[dependencies]
ebml-iterable = {{ path = "{repo_copy}", features = ["derive-spec"] }}

[workspace]
''')
    lib = [LIB_HEAD]
    for k, vs in enumerate(decls):
        lib.append(decl_module(k, vs))
    lib.append('pub fn run_all() -> (u64, Vec<String>) {\n    let mut out = Vec::new();\n    let mut n = 0;\n' + ''.join(f'    n += d{k}::run(&mut out);\n' for k in range(len(decls))) + '    (n, out)\n}\n')
    with open(os.path.join(root, 'src', 'lib.rs'), 'w') as f:
        f.write('\n'.join(lib))
    with open(os.path.join(root, 'src', 'bin', 'tv_main.rs'), 'w') as f:
        f.write('fn main() { let (n, out) = verif_tv::run_all(); println!("EVALS {}", n); for l in out { println!("FAIL {}", l); } }\n')
    for k, (kind, vs, opts) in enumerate(broken):
        with open(os.path.join(root, 'src', 'bin', f'bad_{k}_attr.rs'), 'w') as f:
            f.write('#![allow(dead_code, unused_imports)]\nuse ebml_iterable::specs::{ebml_specification, TagDataType, Master};\n' + attr_src(vs, 'S', opts) + '\nfn main() {}\n')
        if not opts:
            with open(os.path.join(root, 'src', 'bin', f'bad_{k}_easy.rs'), 'w') as f:
                f.write('#![allow(dead_code, unused_imports)]\nuse ebml_iterable::specs::{easy_ebml, TagDataType, Master};\n' + easy_src(vs, 'S') + '\nfn main() {}\n')


def run_units(ctx):
    if ctx.prop != 'C18':
        return
    t0 = time.time()
    rng = random.Random(1000 + ctx.seed)
    n_rand = 24 if ctx.tier == 'thorough' else 8
    decls = base_corpus() + [random_decl(rng) for _ in range(n_rand)]
    broken = broken_variants(rng)
    root = os.path.join(ctx.scratch, 'tv')
    build_crate(root, ctx.ov, decls, broken)
    env = dict(os.environ, CARGO_NET_OFFLINE='true', CARGO_TERM_COLOR='never', RUSTFLAGS='-Awarnings')
    # 1. the valid corpus must compile and its generated code must equal the table
    p = subprocess.run(['cargo', 'run', '--offline', '--quiet', '--bin', 'tv_main'], cwd=root, env=env, capture_output=True, text=True, timeout=1800)
    ctx.checker_cmds.append('cargo run --offline --bin tv_main   (scratch crate depending on the overlay copy of /repo with feature derive-spec)')
    fails = [l[5:] for l in p.stdout.split('\n') if l.startswith('FAIL ')]
    evals = sum(int(l.split()[1]) for l in p.stdout.split('\n') if l.startswith('EVALS '))
    head_lines = LIB_HEAD.count('\n') + 1
    err_lines = [int(x) for x in re.findall(r'--> src/lib\.rs:(\d+):', p.stderr)]
    if p.returncode != 0 and (not err_lines or min(err_lines) <= head_lines):
        ctx.infra_errors.append('TV: the checking harness itself does not compile (not attributable to a declaration): ' + p.stderr[-1200:])
    elif p.returncode != 0:
        errs = [l for l in p.stderr.split('\n') if l.startswith('error')]
        # which declaration does not compile?  (a well-formed declaration that the macro rejects is a violation)
        ctx.obligations.append(Obligation('TV:corpus:compiles', 'TV', 'failed', clause='C18: every well-formed declaration of the corpus is accepted by both macro front ends',
                                          detail='; '.join(errs[:5])[:1500], unit='tv', raw=p.stderr[-6000:], n_checks=len(decls), n_failed=1,
                                          witness={'stderr_head': p.stderr[:3000]}, confirmed=True))
    else:
        for k, vs in enumerate(decls):
            mine = [f for f in fails if f.startswith(f'd{k}/') or f.startswith(f'd{k} ')]
            src = attr_src(vs, 'S')
            ctx.obligations.append(Obligation(f'TV:decl_{k}', 'TV', 'failed' if mine else 'discharged',
                                              clause='C18: generated specification == declaration table on every declared id and probe id (type, path, constructor/accessor matrix, get_id, raw tag, Void/Crc32 added, both front ends agree)',
                                              detail='; '.join(mine[:6]), unit='tv', n_checks=2 * (len(vs) + 2) * 3, n_failed=len(mine), raw='\n'.join(mine[:50]),
                                              witness={'declaration': src, 'failures': mine[:20]} if mine else None, confirmed=bool(mine), extra={'declaration': src if k < 3 or mine else None}))
    # 2. broken declarations must be rejected at compile time
    p2 = subprocess.run(['cargo', 'check', '--offline', '--bins', '--keep-going', '--message-format=json'], cwd=root, env=env, capture_output=True, text=True, timeout=1800)
    ctx.checker_cmds.append('cargo check --offline --bins --keep-going --message-format=json   (one bin per systematically broken declaration and front end)')
    rejected = set()
    compiled = set()
    for l in p2.stdout.split('\n'):
        if not l.startswith('{'):
            continue
        try:
            m = json.loads(l)
        except Exception:
            continue
        if m.get('reason') == 'compiler-message' and m.get('message', {}).get('level') == 'error':
            rejected.add(m.get('target', {}).get('name'))
        if m.get('reason') == 'compiler-artifact':
            compiled.add(m.get('target', {}).get('name'))
    for k, (kind, vs, opts) in enumerate(broken):
        for fe in ['attr'] + ([] if opts else ['easy']):
            t = f'bad_{k}_{fe}'
            src = attr_src(vs, 'S', opts) if fe == 'attr' else easy_src(vs, 'S')
            if t in rejected:
                st = 'discharged'
            elif t in compiled:
                st = 'failed'
            else:
                st = 'undecided'
            ctx.obligations.append(Obligation(f'TV:reject:{re.sub(r"[^a-z0-9]+", "_", kind.lower())}:{fe}', 'TV', st,
                                              clause=f'C18: a declaration with {kind} is rejected with a compile error ({"#[ebml_specification]" if fe == "attr" else "easy_ebml!"})',
                                              detail='' if st == 'discharged' else ('the macro ACCEPTED the declaration' if st == 'failed' else 'target neither compiled nor rejected (build problem)'),
                                              unit='tv', n_checks=1, n_failed=1 if st == 'failed' else 0, witness={'declaration': src} if st == 'failed' else None, confirmed=st == 'failed', raw=src))
    ctx._extra['programs'] = len(decls) + sum(2 if not o else 1 for _, _, o in broken)
    ctx._extra['disagreements_checked'] = evals
    ctx._extra.setdefault('engine_wall_s', {})['TV'] = round(time.time() - t0, 1)
    ctx._samples.append({'declaration': attr_src(decls[2], 'S')[:1500], 'same_declaration_easy_ebml': easy_src(decls[2], 'S')[:1200]})
    ctx._samples.append({'random_declaration': attr_src(decls[-1], 'S')[:1200]})
