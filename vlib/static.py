"""engine S: mechanical frame / non-interference checks on the source text of /repo (token-aware).

These are side conditions that make a decomposition of a contract sound (e.g. "parameter `id` is read
only by the id-emission statement") or frame conditions of the kind `assigns`/`modifies` would state
("only these functions touch self.buffer").  They are syntactic, decided on every run, and reported as
obligations of engine S.
"""
import os
import re

from . import rustlex
from .overlay import REPO, rd
from .report import Obligation


def fn_body(src, name, scope=''):
    pos = rustlex.find_fn(src, name, scope)
    a, b = rustlex.fn_item_span(src, pos)
    m = rustlex.mask(src)
    ob = m.index('{', pos)
    return src[ob + 1:b - 1], m[ob + 1:b - 1]


def ident_occurrences(masked_body, ident):
    return [mm.start() for mm in re.finditer(r'(?<![A-Za-z0-9_.])' + re.escape(ident) + r'(?![A-Za-z0-9_])', masked_body)]


def check_leaf_id_noninterference():
    """In each element writer the parameter `id` occurs exactly once, in the first statement
    `self.working_buffer.extend(id.to_be_bytes().iter().skip_while(|&v| *v == 0u8));`"""
    src = rd(os.path.join(REPO, 'src/tag_writer.rs'))
    bad = []
    for fn in ['write_unsigned_int_tag', 'write_signed_int_tag', 'write_float_tag', 'write_utf8_tag', 'write_binary_tag']:
        try:
            body, mb = fn_body(src, fn)
        except LookupError as e:
            return None, f'anchor lost: {e}'
        occ = ident_occurrences(mb, 'id')
        first_stmt = ' '.join(mb.strip().split(';')[0].split())
        want = 'self.working_buffer.extend(id.to_be_bytes().iter().skip_while(|&v| *v == 0u8))'
        if len(occ) != 1 or first_stmt != want:
            bad.append(f'{fn}: `id` occurs {len(occ)}x, first statement: {first_stmt[:100]}')
    return (not bad), '; '.join(bad)


def fns_mentioning(src, needle_regex, scope=''):
    """names of the fn items (in file text src) whose body or signature mentions needle_regex (token-aware)"""
    m = rustlex.mask(src)
    names = []
    for fm in re.finditer(r'\bfn\s+([A-Za-z_][A-Za-z0-9_]*)', m):
        try:
            a, b = rustlex.fn_item_span(src, fm.start())
        except ValueError:
            continue
        if re.search(needle_regex, m[fm.start():b]):
            names.append(fm.group(1))
    return names


def check_dest_frame():
    """self.dest is mentioned only by new / into_inner / get_mut / get_ref / private_flush (C10: bytes handed over
    are only ever appended through write_all, never rewritten)"""
    src = rd(os.path.join(REPO, 'src/tag_writer.rs'))
    # strip the test module
    cut = src.find('#[cfg(test)]')
    body = src if cut < 0 else src[:cut]
    names = set(fns_mentioning(body, r'self\s*\.\s*dest\b'))
    allowed = {'into_inner', 'get_mut', 'get_ref', 'private_flush'}
    extra = names - allowed
    return (not extra), ('functions touching self.dest outside the frame: ' + ', '.join(sorted(extra))) if extra else ''


def check_buffer_frame():
    """only the buffer layer of TagIterator assigns to / mutably borrows buffer, buffered_byte_length, buffer_offset, source"""
    src = rd(os.path.join(REPO, 'src/tag_iterator.rs'))
    m = rustlex.mask(src)
    allowed = {'with_capacity', 'private_read', 'ensure_capacity', 'ensure_data_read', 'into_inner', 'get_mut', 'get_ref'}
    pat = r'(self\s*\.\s*(buffer|buffered_byte_length|buffer_offset)\s*([-+*]?=(?!=)|\.copy_within|\.fill|\.swap))|(&mut\s+self\s*\.\s*(buffer|source)\b)|(self\s*\.\s*source\s*\.)'
    names = set(fns_mentioning(src, pat))
    extra = names - allowed
    return (not extra), ('functions writing the buffer state outside the buffer layer: ' + ', '.join(sorted(extra))) if extra else ''


def check_int_writers_append_only():
    """write_unsigned_int_tag / write_signed_int_tag mention `self` only as self.working_buffer.{extend,push,extend_from_slice}(
    — append-only operations on the working buffer; no other field is touched (the frame the Verus unit writer_core assumes
    for these two functions, whose closure chains are outside the Verus subset)"""
    src = rd(os.path.join(REPO, 'src/tag_writer.rs'))
    bad = []
    for fn in ['write_unsigned_int_tag', 'write_signed_int_tag']:
        try:
            body, mb = fn_body(src, fn)
        except LookupError as e:
            return None, f'anchor lost: {e}'
        for mm in re.finditer(r'\bself\b', mb):
            rest = mb[mm.end():mm.end() + 60]
            if not re.match(r'\s*\.\s*working_buffer\s*\.\s*(extend|push|extend_from_slice)\s*\(', rest):
                bad.append(f'{fn}: self{rest[:40].strip()!r}')
    return (not bad), '; '.join(bad)


CHECKS = {
    'S:int_writers_append_only': (check_int_writers_append_only, ['C10', 'C19', 'C09'],
                                  'frame: the two integer element writers use self only to append to self.working_buffer (extend / push / extend_from_slice); justifies the append-only contract assumed for them in the Verus unit writer_core'),
    'S:writer_dest_frame': (check_dest_frame, ['C10'], 'frame: self.dest is only touched by into_inner / get_mut / get_ref / private_flush, and private_flush only appends through write_all'),
    'S:iterator_buffer_frame': (check_buffer_frame, ['C03', 'C04', 'C17'], 'frame: only with_capacity / private_read / ensure_capacity / ensure_data_read write buffer, buffered_byte_length, buffer_offset or read from the source'),
    'S:leaf_id_noninterference': (check_leaf_id_noninterference, ['C16', 'C01', 'C09'],
                                  'element writers read `id` only in their first statement (id-byte emission); makes the value x id decomposition of the K harnesses sound'),
}


def run_units(ctx):
    for name, (fn, props, clause) in CHECKS.items():
        if ctx.prop not in props:
            continue
        ok, detail = fn()
        if ok is None:
            ctx.infra_errors.append(f'{name}: {detail}')
            continue
        # a failed side condition means the decomposition / frame argument no longer applies: the proof is UNDECIDED,
        # it is not by itself a violation of the property (a harmless refactoring can fail it)
        ctx.obligations.append(Obligation(name, 'S', 'discharged' if ok else 'undecided', clause=clause, detail=('side condition no longer holds: ' + detail) if not ok else '', unit=name, n_checks=1, n_failed=0 if ok else 1,
                                          raw=detail))
