"""engine static (filled in below)"""


def run_units(ctx):
    return
