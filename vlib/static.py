"""engine S: mechanical frame / non-interference checks on the source text of /repo (token-aware).

These are side conditions that make a decomposition of a contract sound (e.g. "parameter `id` is read
only by the id-emission statement") or frame conditions of the kind `assigns`/`modifies` would state
("only these functions touch self.buffer").  They are syntactic, decided on every run, and reported as
obligations of engine S.
"""
import os
import re

from . import rustlex
from .overlay import REPO, rd
from .report import Obligation


def fn_body(src, name, scope=''):
    pos = rustlex.find_fn(src, name, scope)
    a, b = rustlex.fn_item_span(src, pos)
    m = rustlex.mask(src)
    ob = m.index('{', pos)
    return src[ob + 1:b - 1], m[ob + 1:b - 1]


def ident_occurrences(masked_body, ident):
    return [mm.start() for mm in re.finditer(r'(?<![A-Za-z0-9_.])' + re.escape(ident) + r'(?![A-Za-z0-9_])', masked_body)]


def check_leaf_id_noninterference():
    """In each element writer the parameter `id` occurs exactly once, in the first statement
    `self.working_buffer.extend(id.to_be_bytes().iter().skip_while(|&v| *v == 0u8));`"""
    src = rd(os.path.join(REPO, 'src/tag_writer.rs'))
    bad = []
    for fn in ['write_unsigned_int_tag', 'write_signed_int_tag', 'write_float_tag', 'write_utf8_tag', 'write_binary_tag']:
        try:
            body, mb = fn_body(src, fn)
        except LookupError as e:
            return None, f'anchor lost: {e}'
        occ = ident_occurrences(mb, 'id')
        first_stmt = ' '.join(mb.strip().split(';')[0].split())
        want = 'self.working_buffer.extend(id.to_be_bytes().iter().skip_while(|&v| *v == 0u8))'
        if len(occ) != 1 or first_stmt != want:
            bad.append(f'{fn}: `id` occurs {len(occ)}x, first statement: {first_stmt[:100]}')
    return (not bad), '; '.join(bad)


CHECKS = {
    'S:leaf_id_noninterference': (check_leaf_id_noninterference, ['C16', 'C01', 'C09'],
                                  'element writers read `id` only in their first statement (id-byte emission); makes the value x id decomposition of the K harnesses sound'),
}


def run_units(ctx):
    for name, (fn, props, clause) in CHECKS.items():
        if ctx.prop not in props:
            continue
        ok, detail = fn()
        if ok is None:
            ctx.infra_errors.append(f'{name}: {detail}')
            continue
        ctx.obligations.append(Obligation(name, 'S', 'discharged' if ok else 'failed', clause=clause, detail=detail, unit=name, n_checks=1, n_failed=0 if ok else 1,
                                          raw=detail))
