"""Obligations -> exit code, VIOLATION / KNOWN-FINDING lines, replay files, evidence (DESIGN.md §2.5-2.8)."""
import json
import os
import re
import time

VERIF = os.path.dirname(os.path.dirname(os.path.abspath(__file__)))


class Obligation:
    """One named proof obligation (or one bounded contract check) and its outcome."""

    def __init__(self, name, engine, status, clause='', detail='', unit='', bounded=False, witness=None,
                 confirmed=False, raw='', time_s=None, n_checks=0, n_failed=0, extra=None):
        self.name = name            # e.g. K:tools::verif_tools::k_read_vint
        self.engine = engine        # K | V | BX | BK | S (static frame check)
        self.status = status        # discharged | failed | undecided
        self.clause = clause        # contract clause text / description
        self.detail = detail
        self.unit = unit
        self.bounded = bounded
        self.witness = witness      # concrete input (engine specific), if any
        self.confirmed = confirmed  # witness replayed natively on the real code and failed there
        self.raw = raw              # verifier output for this obligation
        self.time_s = time_s
        self.n_checks = n_checks    # verifier-level checks inside this obligation (Kani checks, Verus SMT queries, BX cases)
        self.n_failed = n_failed
        self.extra = extra or {}

    def to_json(self, with_raw=False):
        d = {k: v for k, v in self.__dict__.items() if k != 'raw'}
        if with_raw:
            d['raw'] = self.raw[-20000:]
        return d


def load_known():
    p = os.path.join(VERIF, 'known_findings.json')
    if not os.path.exists(p):
        return {'findings': [], 'fixed': []}
    return json.load(open(p))


def slug(s):
    return re.sub(r'[^A-Za-z0-9_.-]+', '_', s)[:120]


def match_known(prop, ob, known):
    """a failed obligation matches a known finding only if property, obligation name and the recorded
    failing clause/witness signature all agree"""
    for f in known.get('findings', []):
        if f.get('property') != prop:
            continue
        if f.get('obligation') != ob.name:
            continue
        rx = f.get('input_regex')
        if rx is not None:
            fails = ob.extra.get('failing_inputs') or []
            if not fails or not all(re.search(rx, x) for x in fails):
                continue
        sig = f.get('signature')
        if sig is not None:
            hay = json.dumps(ob.witness, sort_keys=True) + '\n' + ob.detail + '\n' + ob.clause
            if isinstance(sig, list):
                # every signature item must appear among the failing cases; and no failing case outside the list
                fails = ob.extra.get('failing_cases')
                if fails is None:
                    if not all(s in hay for s in sig):
                        continue
                else:
                    if not set(fails) <= set(sig):
                        continue
            elif sig not in hay:
                continue
        return f
    return None


def finish(prop, tier, seed, level, obligations, t0, explanation, trusted_base, assumptions, checker_cmds,
           extra_cov=None, samples=None, infra_errors=None, bounded_stats=None):
    """Print lines, write replay + evidence files, return exit code."""
    known = load_known()
    evdir = os.environ.get('VERIF_EVIDENCE_DIR') or os.path.join(VERIF, 'evidence')   # seed evaluations redirect this so that they never overwrite real evidence
    os.makedirs(evdir, exist_ok=True)
    failed = [o for o in obligations if o.status == 'failed']
    undecided = [o for o in obligations if o.status == 'undecided']
    discharged = [o for o in obligations if o.status == 'discharged']
    violations = []
    known_hits = []
    for o in failed:
        k = match_known(prop, o, known)
        if k:
            known_hits.append((o, k))
        else:
            violations.append(o)
    for o, k in known_hits:
        print(f'KNOWN-FINDING: property={prop} {k.get("what", o.name)}')
    for o in violations:
        rdir = os.path.join(VERIF, 'replays', prop)
        os.makedirs(rdir, exist_ok=True)
        rpath = os.path.join(rdir, slug(o.name) + '.json')
        with open(rpath, 'w') as f:
            json.dump({'property': prop, 'obligation': o.name, 'engine': o.engine, 'unit': o.unit, 'clause': o.clause,
                       'detail': o.detail, 'witness': o.witness, 'witness_confirmed_on_real_code': o.confirmed,
                       'bounded': o.bounded, 'verifier_output': o.raw[-30000:], 'extra': o.extra}, f, indent=1)
        tail = '' if (o.witness is not None and o.confirmed) else ' no-failing-input-found'
        print(f'VIOLATION property={prop} replay={rpath}{tail}')
        shown = o.clause or o.detail
        if o.engine == 'V' and o.detail:
            # Verus names the exact clause that failed: show that rather than the whole contract
            shown = ' '.join(o.detail.split())
        print(f'  obligation {o.name}: {shown}'[:600])
    for o in undecided:
        print(f'UNDECIDED property={prop} obligation={o.name}: {o.detail[:300]}')
    for e in infra_errors or []:
        print(f'INFRA-ERROR property={prop}: {e[:600]}')

    n_ob = len(obligations)
    n_dis = len(discharged)
    cov = {
        'obligations': n_ob,
        'discharged': n_dis,
        'failed': len(failed),
        'undecided': len(undecided),
        'known_findings_reported': len(known_hits),
        'checker_cmd': ' ;; '.join(checker_cmds) if checker_cmds else 'n/a',
        'trusted_base': trusted_base,
        'explanation': explanation,
        'verifier_checks_total': sum(o.n_checks for o in obligations),
        'verifier_checks_failed': sum(o.n_failed for o in obligations),
        'obligations_by_backend': {},
        'solver_time_s': round(sum((o.time_s or 0) for o in obligations), 3),
        'obligation_list': [{'name': o.name, 'engine': o.engine, 'status': o.status, 'bounded': o.bounded,
                             'clause': o.clause[:300], 'checks': o.n_checks, 'time_s': o.time_s} for o in obligations],
        'samples': samples if samples else [o.to_json() for o in obligations[:3]],
    }
    for o in obligations:
        b = cov['obligations_by_backend'].setdefault(o.engine, {'obligations': 0, 'discharged': 0})
        b['obligations'] += 1
        b['discharged'] += 1 if o.status == 'discharged' else 0
    if bounded_stats:
        cov.update(bounded_stats)
    if extra_cov:
        cov.update(extra_cov)
    ev = {
        'property_id': prop,
        'tier': tier,
        'seed': seed,
        'level': level,
        'coverage': cov,
        'assumptions': assumptions,
        'wall_s': round(time.time() - t0, 2),
        'violations': len(violations),
    }
    with open(os.path.join(evdir, prop + '.json'), 'w') as f:
        json.dump(ev, f, indent=1)
    if violations:
        return 1
    if undecided or infra_errors:
        return 2
    print(f'OK property={prop} tier={tier} obligations={n_ob} discharged={n_dis} known_findings={len(known_hits)} wall={ev["wall_s"]}s')
    return 0
