"""Engine K: run Kani harnesses in an overlay, parse per-check results, fetch concrete playback values."""
import os
import re
import signal
import subprocess
import time


def module_path(host_rel, module):
    """src/tools.rs + verif_tools -> tools::verif_tools ; src/lib.rs + x -> x"""
    base = os.path.splitext(os.path.relpath(host_rel, 'src'))[0]
    if base == 'lib':
        return module
    return base.replace('/', '::') + '::' + module


def full_name(h):
    return module_path(h['host'], h['module']) + '::' + h['name']


_CHECK_RE = re.compile(r'^Check (\d+): ([^\n]+)\n\t - Status: (\w+)\n\t - Description: "(.*)"\n(?:\t - Location: (.*)\n)?', re.M)


def parse_result_file(text):
    checks = []
    for m in _CHECK_RE.finditer(text):
        checks.append({'n': int(m.group(1)), 'id': m.group(2), 'status': m.group(3), 'desc': m.group(4), 'loc': (m.group(5) or '').strip()})
    verdict = None
    m = re.search(r'VERIFICATION:- (\w+)', text)
    if m:
        verdict = m.group(1)
    t = re.search(r'Verification Time: ([0-9.]+)s', text)
    return checks, verdict, float(t.group(1)) if t else None


def _run(cmd, cwd, timeout, log_path):
    env = dict(os.environ, CARGO_NET_OFFLINE='true', CARGO_TERM_COLOR='never')
    with open(log_path, 'w') as log:
        p = subprocess.Popen(cmd, cwd=cwd, env=env, stdout=log, stderr=subprocess.STDOUT, start_new_session=True)
        try:
            rc = p.wait(timeout=timeout)
            return rc, False
        except subprocess.TimeoutExpired:
            try:
                os.killpg(p.pid, signal.SIGKILL)
            except ProcessLookupError:
                pass
            p.wait()
            return -9, True


def run(overlay_dir, harnesses, per_harness_timeout=300, jobs=14, wall_timeout=None, log_dir=None, extra_args=()):
    """harnesses: list of dicts from overlay.build()['harnesses'].  Returns {name: result}."""
    log_dir = log_dir or os.path.join(overlay_dir, 'verif_logs')
    os.makedirs(log_dir, exist_ok=True)
    out_dir = os.path.join(overlay_dir, 'result_output_dir')
    if os.path.isdir(out_dir):
        for f in os.listdir(out_dir):
            os.unlink(os.path.join(out_dir, f))
    cmd = ['cargo', 'kani', '-Z', 'function-contracts', '-Z', 'stubbing', '-Z', 'unstable-options',
           '--output-format', 'terse', '--output-into-files', '-j', str(jobs), '--exact',
           '--harness-timeout', f'{per_harness_timeout}s']
    names = {}
    for h in harnesses:
        fn = full_name(h)
        names[fn] = h
        cmd += ['--harness', fn]
    cmd += list(extra_args)
    wall_timeout = wall_timeout or (per_harness_timeout * max(1, (len(harnesses) + jobs - 1) // jobs) + 240)
    log_path = os.path.join(log_dir, 'kani_main.log')
    t0 = time.time()
    rc, timed_out = _run(cmd, overlay_dir, wall_timeout, log_path)
    wall = time.time() - t0
    main_log = open(log_path, errors='replace').read()
    results = {}
    compile_error = None
    if 'error: could not compile' in main_log or 'error[E' in main_log or re.search(r'^error: ', main_log, re.M) and 'Checking harness' not in main_log:
        compile_error = '\n'.join(l for l in main_log.split('\n') if not l.startswith('warning'))[-4000:]
    for fn, h in names.items():
        res = {'harness': h['name'], 'full_name': fn, 'status': 'ERROR', 'checks': [], 'failed': [], 'time_s': None, 'detail': ''}
        f = os.path.join(out_dir, fn)
        if compile_error:
            res['status'] = 'COMPILE_ERROR'
            res['detail'] = compile_error
        elif os.path.exists(f):
            text = open(f, errors='replace').read()
            checks, verdict, secs = parse_result_file(text)
            res['checks'] = checks
            res['time_s'] = secs
            res['failed'] = [c for c in checks if c['status'] in ('FAILURE', 'UNDETERMINED', 'UNKNOWN')]
            unwind_fail = [c for c in res['failed'] if 'unwinding assertion' in c['desc']]
            unsupported = [c for c in res['failed'] if 'is not currently supported by Kani' in c['desc'] or 'unsupported' in c['id'].lower()]
            if 'CBMC timed out' in text:
                res['status'] = 'TIMEOUT'
                res['detail'] = 'CBMC timed out'
            elif verdict == 'SUCCESSFUL':
                res['status'] = 'SUCCESS'
            elif verdict == 'FAILED':
                real = [c for c in res['failed'] if c['status'] == 'FAILURE' and c not in unwind_fail and c not in unsupported]
                if unwind_fail or unsupported:
                    res['status'] = 'UNDECIDED'
                    res['detail'] = 'unwinding assertion / unsupported construct failed: ' + '; '.join(c['desc'] for c in (unwind_fail + unsupported)[:3])
                elif real:
                    res['status'] = 'FAILED'
                else:
                    res['status'] = 'UNDECIDED'
                    res['detail'] = 'verification failed without a FAILURE check'
            else:
                res['status'] = 'TIMEOUT' if ('timed out' in text.lower() or 'timeout' in text.lower()) else 'ERROR'
                res['detail'] = text[-2000:]
            res['raw'] = text
        else:
            if timed_out:
                res['status'] = 'TIMEOUT'
            elif re.search(re.escape(fn) + r'.*(timed out|timeout)', main_log, re.I):
                res['status'] = 'TIMEOUT'
            res['detail'] = main_log[-3000:]
        results[h['name']] = res
    return {'results': results, 'wall_s': wall, 'cmd': ' '.join(cmd), 'main_log': main_log, 'timed_out': timed_out}


def playback(overlay_dir, harness, timeout=600, log_dir=None):
    """Re-run one failing harness with concrete playback; returns list of byte vectors or None."""
    log_dir = log_dir or os.path.join(overlay_dir, 'verif_logs')
    os.makedirs(log_dir, exist_ok=True)
    fn = full_name(harness)
    cmd = ['cargo', 'kani', '-Z', 'function-contracts', '-Z', 'stubbing', '-Z', 'concrete-playback',
           '--concrete-playback=print', '--exact', '--harness', fn]
    log_path = os.path.join(log_dir, f'playback_{harness["name"]}.log')
    _run(cmd, overlay_dir, timeout, log_path)
    text = open(log_path, errors='replace').read()
    m = re.search(r'let concrete_vals: Vec<Vec<u8>> = vec!\[(.*?)\n\s*\];', text, re.S)
    if not m:
        return None, text
    vals = []
    for vm in re.finditer(r'vec!\[([0-9,\s]*)\]', m.group(1)):
        body = vm.group(1).strip()
        vals.append([int(x) for x in body.split(',') if x.strip()] if body else [])
    return vals, text
