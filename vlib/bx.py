"""engine bx (filled in below)"""


def run_units(ctx):
    return
