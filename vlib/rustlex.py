"""Minimal token-aware helpers for Rust source text (comments, strings, chars, lifetimes, braces).

mask(src) returns a string of the same length in which the *contents* of comments, string literals
and char literals are replaced by spaces (newlines kept), so regular expressions and brace matching
can be applied safely and offsets map 1:1 to the original text.
"""
import re


def mask(src: str) -> str:
    out = list(src)
    i, n = 0, len(src)

    def blank(a, b):
        for k in range(a, b):
            if out[k] != '\n':
                out[k] = ' '

    while i < n:
        c = src[i]
        if c == '/' and i + 1 < n and src[i + 1] == '/':
            j = src.find('\n', i)
            j = n if j < 0 else j
            blank(i, j)
            i = j
        elif c == '/' and i + 1 < n and src[i + 1] == '*':
            depth, j = 1, i + 2
            while j < n and depth:
                if src.startswith('/*', j):
                    depth += 1; j += 2
                elif src.startswith('*/', j):
                    depth -= 1; j += 2
                else:
                    j += 1
            blank(i, j)
            i = j
        elif c == '"' or (c in 'br' and re.match(r'(b?r#*"|b")', src[i:i + 12]) and (i == 0 or not (src[i - 1].isalnum() or src[i - 1] == '_'))):
            m = re.match(r'(b?)(r?)(#*)"', src[i:])
            if not m:
                i += 1
                continue
            raw, hashes = m.group(2), m.group(3)
            j = i + m.end()
            if raw:
                end = src.find('"' + hashes, j)
                end = n if end < 0 else end
                blank(j, end)
                i = end + 1 + len(hashes)
            else:
                while j < n and src[j] != '"':
                    j += 2 if src[j] == '\\' else 1
                blank(i + m.end(), j)
                i = j + 1
        elif c == "'":
            # char literal or lifetime
            m = re.match(r"'(\\.[^']*|[^'\\])'", src[i:])
            if m:
                blank(i + 1, i + m.end() - 1)
                i += m.end()
            else:
                i += 1
        else:
            i += 1
    return ''.join(out)


def match_brace(masked: str, open_idx: int) -> int:
    """index of the brace/paren/bracket matching the one at open_idx"""
    pairs = {'{': '}', '(': ')', '[': ']'}
    o = masked[open_idx]
    cl = pairs[o]
    depth = 0
    for k in range(open_idx, len(masked)):
        ch = masked[k]
        if ch == o:
            depth += 1
        elif ch == cl:
            depth -= 1
            if depth == 0:
                return k
    raise ValueError('unbalanced')


def find_fn(src: str, name: str, scope: str = '') -> int:
    """offset of the `fn` keyword of the function `name` (inside an item whose header contains `scope`).
    Raises LookupError if not found or ambiguous."""
    m = mask(src)
    hits = []
    for mm in re.finditer(r'\bfn\s+' + re.escape(name) + r'\b', m):
        pos = mm.start()
        if scope:
            if not _in_scope(m, pos, scope):
                continue
        hits.append(pos)
    if len(hits) != 1:
        raise LookupError(f'fn {name} (scope {scope!r}): {len(hits)} candidates')
    return hits[0]


def _in_scope(m: str, pos: int, scope: str) -> bool:
    # walk over enclosing braces from the outside in
    depth_stack = []
    for k in range(pos):
        ch = m[k]
        if ch == '{':
            depth_stack.append(k)
        elif ch == '}':
            if depth_stack:
                depth_stack.pop()
    for ob in depth_stack:
        # header: from previous ';' or '}' or '{' to ob
        hs = max(m.rfind(';', 0, ob), m.rfind('}', 0, ob), m.rfind('{', 0, ob)) + 1
        if scope in ' '.join(m[hs:ob].split()):
            return True
    return False


def fn_item_span(src: str, fn_pos: int):
    """(start_of_line_of_fn, end_index_exclusive) of the fn item whose `fn` keyword is at fn_pos.
    The start is the beginning of the line holding `fn` (qualifiers such as `pub` are on that line)."""
    m = mask(src)
    ls = src.rfind('\n', 0, fn_pos) + 1
    # body: first '{' at paren depth 0 after the signature, or ';'
    k = fn_pos
    depth = 0
    while k < len(m):
        ch = m[k]
        if ch in '([':
            depth += 1
        elif ch in ')]':
            depth -= 1
        elif ch == '{' and depth == 0:
            return ls, match_brace(m, k) + 1
        elif ch == ';' and depth == 0:
            return ls, k + 1
        k += 1
    raise ValueError('fn body not found')


def line_prefix_is_qualifiers(src: str, fn_pos: int) -> bool:
    ls = src.rfind('\n', 0, fn_pos) + 1
    pre = src[ls:fn_pos]
    return re.fullmatch(r'\s*((pub(\s*\([^)]*\))?|const|unsafe|async|extern(\s*"[^"]*")?|default)\s+)*', pre) is not None
