"""Per-property orchestration of the verification units (K: Kani, V: Verus, BX/BK: bounded stand-ins, S: static frame checks)."""
import json
import os
import re
import subprocess
import time

from . import overlay, kani
from .report import Obligation

VERIF = os.path.dirname(os.path.dirname(os.path.abspath(__file__)))

QUICK_K_TIMEOUT = 420
THOROUGH_K_TIMEOUT = 2400


def build_native(overlay_dir, example, log_path, release=False):
    # optimised, but with arithmetic overflow checks ON: an overflow that would panic in a debug build must not go unnoticed (C05)
    env = dict(os.environ, CARGO_NET_OFFLINE='true', RUSTFLAGS='--cfg verif_rt -Awarnings' + (' -C overflow-checks=on' if release else ''), CARGO_TERM_COLOR='never')
    cmd = ['cargo', 'build', '--offline', '--example', example] + (['--release'] if release else [])
    exe = os.path.join(overlay_dir, 'target', 'release' if release else 'debug', 'examples', example)
    for attempt in range(3):
        with open(log_path, 'w') as log:
            rc = subprocess.run(cmd, cwd=overlay_dir, env=env, stdout=log, stderr=subprocess.STDOUT).returncode
        if rc == 0 and os.path.exists(exe):
            return True, exe
        txt = open(log_path, errors='replace').read()
        transient = 'signal: 9' in txt or 'SIGKILL' in txt or 'failed to run `rustc`' in txt or 'Resource temporarily unavailable' in txt or 'Cannot allocate memory' in txt
        if re.search(r'^error(\[E\d+\])?: (?!could not compile)', txt, re.M) and not transient:
            break          # a real compile error: retrying cannot help
        time.sleep(20)     # the compiler was killed / interrupted (memory pressure from other jobs): try again
    return False, exe


class Context:
    def __init__(self, prop, tier, seed, scratch, cfg, only=None):
        self.prop, self.tier, self.seed, self.scratch, self.cfg = prop, tier, seed, scratch, cfg
        self.only = only or []
        self.obligations = []
        self.infra_errors = []
        self.checker_cmds = []
        self.info = None
        self.ov = os.path.join(scratch, 'ov')
        self._extra = {}
        self._samples = []
        self._bounded = {}
        self._replay_exe = None
        self._assumption_scan = []
        self._playbacks = 0

    # ---- evidence helpers ------------------------------------------------------------------
    def explanation(self):
        return self.cfg.get('explanation', '')

    def trusted_base(self):
        return list(self.cfg.get('trusted_base', []))

    def assumptions(self):
        return list(self.cfg.get('assumptions', [])) + self._assumption_scan

    def extra_cov(self):
        d = dict(self._extra)
        if self.info:
            d['functions_under_contract'] = self._fuc()
            d['overlay'] = {'faithful': self.info.get('faithful'), 'inserted': self.info.get('inserted'),
                            'source_hashes': self.info.get('source_hashes')}
        d['unverified_surroundings'] = self.cfg.get('unverified', [])
        return d

    def samples(self):
        return self._samples[:8]

    def bounded_stats(self):
        return self._bounded

    def _fuc(self):
        res = []
        for c in self.info.get('contracts', []):
            res.append({'fn': c['fn'], 'file': c['file'], 'item_sha256': c['item_sha256'], 'engine': 'K (kani::requires/ensures injected)', 'attrs': c['attrs']})
        for f in self._extra.get('verus_functions', []):
            res.append(f)
        return res

    def enabled(self, eng):
        return not self.only or eng in self.only

    # ---- main ---------------------------------------------------------------------------------
    def run_all(self):
        self.info = overlay.build(self.ov)
        if self.enabled('K'):
            self.run_kani()
        if self.enabled('V'):
            from . import verus
            verus.run_units(self)
        if self.enabled('BX'):
            from . import bx
            bx.run_units(self)
        if self.enabled('S'):
            from . import static
            static.run_units(self)
        if self.enabled('TV'):
            from . import tv
            tv.run_units(self)
        if not self.obligations and not self.infra_errors:
            self.infra_errors.append('vacuity: no obligation was generated for this property')
        self.scan_assumptions()

    def scan_assumptions(self):
        pats = ['kani::assume', 'src::assume(', 'admit(', 'assume(', 'external_body', 'assume_specification', 'kani::stub', 'verifier::external']
        found = {}
        roots = [os.path.join(VERIF, 'contracts'), os.path.join(VERIF, 'bx')]
        for r in roots:
            for root, _, files in os.walk(r):
                for fn in files:
                    p = os.path.join(root, fn)
                    try:
                        txt = open(p, errors='replace').read()
                    except OSError:
                        continue
                    for pat in pats:
                        n = txt.count(pat)
                        if n:
                            found.setdefault(os.path.relpath(p, VERIF), {})[pat] = n
        self._extra['assumption_scan'] = found

    # ---- engine K -----------------------------------------------------------------------------
    def k_harnesses(self):
        hs = []
        for h in self.info['harnesses']:
            props = h.get('props', '').split(',')
            if self.prop not in props:
                continue
            if h.get('tier', 'quick') == 'thorough' and self.tier != 'thorough':
                continue
            hs.append(h)
        only = os.environ.get('VERIF_ONLY_HARNESS')   # debugging aid
        if only:
            hs = [h for h in hs if h['name'] in only.split(',')]
        return hs

    def run_kani(self):
        hs = self.k_harnesses()
        if not hs:
            return
        tmo = THOROUGH_K_TIMEOUT if self.tier == 'thorough' else QUICK_K_TIMEOUT
        r = kani.run(self.ov, hs, per_harness_timeout=tmo, jobs=min(15 if self.tier == 'quick' else 10, len(hs)))
        self.checker_cmds.append(r['cmd'].replace(self.ov, '<overlay>'))
        # harnesses that ran out of memory / time while 10-15 CBMC processes shared the machine get one more run, few at a time
        again = [h for h in hs if r['results'][h['name']]['status'] in ('UNDECIDED', 'TIMEOUT', 'ERROR') and 'unwinding' not in r['results'][h['name']].get('detail', '')]
        if again and len(again) <= 12:
            r2 = kani.run(self.ov, again, per_harness_timeout=tmo * 2, jobs=min(3, len(again)), log_dir=os.path.join(self.ov, 'verif_logs_retry'))
            for h in again:
                if r2['results'][h['name']]['status'] in ('SUCCESS', 'FAILED'):
                    r['results'][h['name']] = r2['results'][h['name']]
            self._extra['kani_retried'] = [h['name'] for h in again]
        self._extra.setdefault('engine_wall_s', {})['K'] = round(r['wall_s'], 1)
        for h in hs:
            x = r['results'][h['name']]
            name = 'K:' + x['full_name']
            clause = self._clause_of(h)
            nchk = len([c for c in x['checks'] if c['status'] in ('SUCCESS', 'FAILURE')])
            if x['status'] == 'SUCCESS':
                self.obligations.append(Obligation(name, 'K', 'discharged', clause=clause, unit=h['name'], time_s=x['time_s'], n_checks=nchk,
                                                   extra={'contract_for': h.get('for', ''), 'unwind': h.get('unwind'), 'exhaustive': True}))
            elif x['status'] == 'FAILED' and h.get('assembled'):
                # The harness assembles private state by hand (no public call sequence reaches it inside CBMC's budget).  A failure
                # from such a state is only a violation if the state is one the real code can be in: a change that adds a field
                # with its own invariant (a cache, a counter) makes the assembled state invalid.  Reported as undecided; the
                # bounded units drive the same functions through the public API and raise the alarm if the failure is real.
                fails = [c for c in x['failed'] if c['status'] == 'FAILURE']
                detail = 'failure from a hand-assembled private state (not confirmed through the public API): ' + '; '.join(f'{c["desc"]} @ {c["loc"]}' for c in fails[:6])
                self.obligations.append(Obligation(name, 'K', 'undecided', clause=clause, detail=detail, unit=h['name'], time_s=x['time_s'], n_checks=nchk, n_failed=len(fails)))
            elif x['status'] == 'FAILED':
                fails = [c for c in x['failed'] if c['status'] == 'FAILURE']
                detail = '; '.join(f'{c["desc"]} @ {c["loc"]}' for c in fails[:6])
                raw = '\n'.join(f'Check {c["n"]}: {c["id"]}\n - Status: {c["status"]}\n - Description: {c["desc"]}\n - Location: {c["loc"]}' for c in fails)
                ob = Obligation(name, 'K', 'failed', clause=clause, detail=detail, unit=h['name'], raw=raw, time_s=x['time_s'], n_checks=nchk, n_failed=len(fails),
                                extra={'failed_checks': [{'id': c['id'], 'desc': c['desc'], 'loc': c['loc']} for c in fails]})
                if self._playbacks < 2:   # concrete playback re-runs CBMC: keep the violation path fast
                    self._playbacks += 1
                    self.k_counterexample(h, ob)
                self.obligations.append(ob)
            else:
                self.obligations.append(Obligation(name, 'K', 'undecided', clause=clause, detail=f'{x["status"]}: {x["detail"][-800:]}', unit=h['name'], raw=x.get('raw', '')[-4000:]))
        okc = [o for o in self.obligations if o.engine == 'K']
        for o in okc[:3]:
            self._samples.append({'obligation': o.name, 'clause': o.clause, 'status': o.status, 'kani_checks': o.n_checks, 'cbmc_time_s': o.time_s})

    def _clause_of(self, h):
        # clause text = the messages of the src::check calls in the harness body
        srcp = None
        for m in self.info['modules']:
            if m['name'] == h['module']:
                srcp = os.path.join(VERIF, m['source'])
        if not srcp:
            return ''
        txt = open(srcp).read()
        m = re.search(r'pub fn ' + re.escape(h['body']) + r'\s*\(\)\s*\{', txt)
        if not m:
            return ''
        eol = txt.find('\n', m.end())
        if txt[m.end():eol].rstrip().endswith('}'):
            body = txt[m.end():eol]          # one-line harness: `pub fn h() { helper::<W>(..) }`
        else:
            end = txt.find('\n}\n', m.end())
            body = txt[m.end():end]
        pat = r'(?:src::check(?:_rt)?|vcheck!)\([^;]*?"((?:[^"\\]|\\.)*)"\s*\)\s*;'
        msgs = re.findall(pat, body, re.S)
        if not msgs:
            # the body delegates to a helper of the same file (e.g. `uint_case::<3>(..)`): take the helper's clauses
            for callee in re.findall(r'\b([a-z_][a-z0-9_]*)\s*(?:::<[^>]*>)?\s*\(', body):
                mm = re.search(r'\bfn ' + re.escape(callee) + r'\b[^{]*\{', txt)
                if mm:
                    e2 = txt.find('\n}\n', mm.end())
                    msgs += re.findall(pat, txt[mm.end():e2], re.S)
        return ' | '.join(msgs)

    def replay_exe(self):
        if self._replay_exe is None:
            ok, exe = build_native(self.ov, 'verif_replay', os.path.join(self.scratch, 'native_build.log'))
            self._replay_exe = exe if ok else False
        return self._replay_exe

    def native_replay(self, harness_name, vals):
        exe = self.replay_exe()
        if not exe:
            return None
        arg = ';'.join(','.join(str(b) for b in v) for v in vals)
        try:
            p = subprocess.run([exe, harness_name, arg], capture_output=True, text=True, timeout=120)
            line = [l for l in p.stdout.split('\n') if l.startswith('{')]
            return json.loads(line[-1]) if line else None
        except Exception:
            return None

    def k_counterexample(self, h, ob):
        vals, text = kani.playback(self.ov, h, timeout=300)
        if vals is None:
            ob.detail += ' (no concrete playback values)'
            return
        ob.witness = {'harness': h['name'], 'kani_concrete_vals': vals}
        r = self.native_replay(h['name'], vals)
        if r is not None:
            ob.extra['native_replay'] = r
            if (r.get('panicked') or r.get('failed_checks')) and not r.get('assumption_violated'):
                ob.confirmed = True


def replay(prop, path, scratch):
    """check --replay <file>: rebuild the overlay, feed the recorded input to the real code natively."""
    rec = json.load(open(path))
    eng = rec.get('engine')
    ov = os.path.join(scratch, 'ov')
    if eng == 'K':
        overlay.build(ov)
        ok, exe = build_native(ov, 'verif_replay', os.path.join(scratch, 'native_build.log'))
        if not ok:
            print('replay: native build failed')
            return 2
        w = rec.get('witness') or {}
        vals = w.get('kani_concrete_vals')
        if vals is None:
            print('replay: the verifier gave no input for this obligation; verifier output follows')
            print(rec.get('verifier_output', '')[:4000])
            return 1
        arg = ';'.join(','.join(str(b) for b in v) for v in vals)
        p = subprocess.run([exe, w['harness'], arg], capture_output=True, text=True)
        print(p.stdout.strip())
        try:
            r = json.loads([l for l in p.stdout.split('\n') if l.startswith('{')][-1])
        except Exception:
            return 2
        bad = (r.get('panicked') or r.get('failed_checks')) and not r.get('assumption_violated')
        print('replay:', 'contract violated on the real code' if bad else 'contract holds on this input')
        return 1 if bad else 0
    if eng in ('BX', 'BK'):
        from . import bx
        return bx.replay(prop, rec, scratch)
    print('replay: no concrete input for engine', eng)
    print(rec.get('verifier_output', '')[:4000])
    return 1
